"""C16 - parameter constraints survive every sequence of updates.

Histories are lists of operations interpreted against a fresh VarsManager; the
oracle is relational (snapshot before / after each operation) plus a small
model of the constraint structure (fixed set, tie classes)."""

import math

import numpy as np
from hypothesis import strategies as st

from vlib import env
from vlib.api import run_pinned, Sub, oracle

RULE = (
    "history = setup in configuration order (create 1-3 real and 1-4 complex variables, fix, tie [real tie, full complex tie, shared radius], bound) followed by 1-25 "
    "operations drawn from {set, set_all(dict|list), get_all_dic->set_all round trip, refresh_vars, rp2xy/xy2rp(_all), std_polar(_all), standard_complex, trans_params, set_fix/unfix, "
    "mask_params block, BFGS minimize step}; values incl. negative radii and phases outside (-pi,pi]. "
    "non-trivial = history has a tie and a coordinate switch / standardisation / bulk load after it, and >= 8 operations; distinct = hash of the history. "
    "Bound sub-check: two-sided / lower / upper / custom expressions, y on the allowed range, x on the real line"
)
ASSUMPTIONS = [
    "a switch to Cartesian form is not applied to variables that only share their radius (the |A|=|B| tie is expressible in polar form only): counted, not asserted",
    "fixed complex variables are created in standard form (r>=0, phase in range): re-expressing a fixed variable would contradict 'fixed changes only by assignment'",
    "complex values compared with atol 1e-9*(1+|z|)",
]

TWO_PI = 2 * math.pi


def raw(vm, name):
    return float(vm.variables[name].numpy())


def cval(vm, c):
    a, b = raw(vm, c + "r"), raw(vm, c + "i")
    return a * complex(math.cos(b), math.sin(b)) if vm.complex_vars[c] else complex(a, b)


class World:
    def __init__(self, case):
        tf = env.tfpwa()
        from tf_pwa.variable import VarsManager

        self.vm = vm = VarsManager()
        s = case["setup"]
        self.reals = ["x%d" % i for i in range(len(s["reals"]))]
        self.cplx = ["c%d" % i for i in range(len(s["cplx"]))]
        self.no_init = set()
        for k, (n, v) in enumerate(zip(self.reals, s["reals"])):
            if k in s.get("no_init", []):
                # created without a start value (random in a range), as model
                # parameters without configured values are
                from tf_pwa.data import set_random_seed

                set_random_seed(1000 + k)
                vm.add_real_var(n, range_=(v - 0.5, v + 0.5))
                self.no_init.add(n)
            else:
                vm.add_real_var(n, value=v)
        for n, (r, p, polar) in zip(self.cplx, s["cplx"]):
            vm.add_complex_var(n, polar=bool(polar))
            vm.set(n + "r", r, val_in_fit=False)
            vm.set(n + "i", p, val_in_fit=False)
        self.all_real_names = self.reals + [c + k for c in self.cplx for k in "ri"]
        self.tie_classes = []  # list of sets of real names
        self.fixed = set()
        self.bounds = {}
        self.share_r = set()
        self.full_tied = []
        if s.get("order", "tfb") == "fbt":
            # the order the configuration loader applies: fix, bound, tie
            self._do_fix(s)
            self._do_bounds(s)
            self._do_ties(s)
            for t in self.tie_classes:
                if t & self.fixed:
                    self.fixed |= t
        else:
            self._do_ties(s)
            self._do_fix(s)
            self._do_bounds(s)

    def _do_ties(self, s):
        vm = self.vm
        def union(names):
            hit = [t for t in self.tie_classes if t & set(names)]
            new = set(names)
            for t in hit:
                new |= t
                self.tie_classes.remove(t)
            self.tie_classes.append(new)

        for t in s["ties"]:
            kind, i, j = t
            if kind == "real" and len(self.reals) >= 2:
                a, b = self.reals[i % len(self.reals)], self.reals[j % len(self.reals)]
                if a != b:
                    vm.set_same([a, b])
                    union([a, b])
            elif kind == "real_all" and len(self.reals) >= 3:
                # one call tying three names, as a var_equal list does
                names = list(self.reals[:3])
                if i % 2:
                    names = names[::-1]
                vm.set_same(names)
                union(names)
            elif kind == "real_chain" and len(self.reals) >= 3:
                # two calls whose classes must merge: (a,b) then (c,a) - the members of the absorbed class follow
                a, b, c = (self.reals[(i + k) % len(self.reals)] for k in range(3))
                if len({a, b, c}) == 3:
                    vm.set_same([a, b])
                    union([a, b])
                    first = [c, a] if j % 2 else [c, b]
                    vm.set_same(first)
                    union(first)
            elif kind == "real_merge" and len(self.reals) >= 4:
                # two existing classes merged by a third call: (a,b), (c,d), then (b,d) or (d,a)
                a, b, c, d = (self.reals[(i + k) % len(self.reals)] for k in range(4))
                if len({a, b, c, d}) == 4:
                    vm.set_same([a, b])
                    union([a, b])
                    vm.set_same([c, d])
                    union([c, d])
                    third = [b, d] if j % 2 else [d, a]
                    vm.set_same(third)
                    union(third)
            elif kind == "cplx_chain" and len(self.cplx) >= 3:
                a, b, c = (self.cplx[(i + k) % len(self.cplx)] for k in range(3))
                if len({a, b, c}) == 3 and len({vm.complex_vars[x] for x in (a, b, c)}) == 1 and not ({a, b, c} & self.share_r):
                    vm.set_same([a, b], cplx=True)
                    second = [c, a] if j % 2 else [c, b]
                    vm.set_same(second, cplx=True)
                    for k in "ri":
                        union([a + k, b + k])
                        union([x + k for x in second])
                    self.full_tied.append((a, b))
                    self.full_tied.append(tuple(second))
            elif kind == "cplx" and len(self.cplx) >= 2:
                a, b = self.cplx[i % len(self.cplx)], self.cplx[j % len(self.cplx)]
                if a != b and vm.complex_vars[a] == vm.complex_vars[b] and a not in self.share_r and b not in self.share_r:
                    vm.set_same([a, b], cplx=True)
                    union([a + "r", b + "r"])
                    union([a + "i", b + "i"])
                    self.full_tied.append((a, b))
            elif kind == "share_r" and len(self.cplx) >= 2:
                a, b = self.cplx[i % len(self.cplx)], self.cplx[j % len(self.cplx)]
                if a != b and not any(a in ft or b in ft for ft in self.full_tied):
                    vm.set_share_r([a, b])
                    union([a + "r", b + "r"])
                    self.share_r |= {a, b}
    def _do_fix(self, s):
        vm = self.vm
        for k in s["fix"]:
            n = self.all_real_names[k % len(self.all_real_names)]
            if n[0] == "c":
                c = n[:-1]
                # keep fixed complex variables in standard form (see ASSUMPTIONS)
                if not vm.complex_vars[c] or raw(vm, c + "r") < 0 or not (-math.pi <= raw(vm, c + "i") < math.pi) or c in self.share_r:
                    continue
            cls = self.class_of(n)
            if n in vm.trainable_vars:
                vm.set_fix(n)
                self.fixed |= cls
            elif any(m in vm.trainable_vars for m in cls):
                m = [m for m in cls if m in vm.trainable_vars][0]
                vm.set_fix(m)
                self.fixed |= cls
    def _do_bounds(self, s):
        vm = self.vm
        for k, kind, lo, width in s["bounds"]:
            if not self.reals:
                break
            n = self.reals[k % len(self.reals)]
            if n in self.bounds:
                continue
            v = raw(vm, n)
            if kind == "two":
                rng = (v - lo, v + width)
            elif kind == "lower":
                rng = (v - lo, None)
            else:
                rng = (None, v + width)
            if any(m in self.bounds for m in self.class_of(n)):
                continue
            vm.set_bound({n: rng})
            self.bounds[n] = rng

    def class_of(self, n):
        for t in self.tie_classes:
            if n in t:
                return set(t)
        return {n}

    def snapshot(self):
        vm = self.vm
        return {
            "raw": {n: raw(vm, n) for n in self.all_real_names},
            "c": {c: cval(vm, c) for c in self.cplx},
            "polar": {c: vm.complex_vars[c] for c in self.cplx},
        }


def check_structure(ctx, w, where):
    vm = w.vm
    tv = list(vm.trainable_vars)
    ctx.check(len(tv) == len(set(tv)), "trainable_no_duplicates", "%s: %s" % (where, tv))
    for t in w.tie_classes:
        vals = {n: raw(vm, n) for n in sorted(t)}
        ctx.check(len(set(vals.values())) == 1, "tied_read_same_value", "%s: %s" % (where, vals))
        k = sum(1 for n in t if n in tv)
        ctx.check(k <= 1, "tied_count_once", "%s: %d names of class %s are free parameters" % (where, k, sorted(t)))
        objs = {id(vm.variables[n]) for n in t}
        ctx.check(len(objs) == 1, "tied_share_storage", "%s: %s" % (where, sorted(t)))
    for n in w.fixed:
        ctx.check(n not in tv, "fixed_not_trainable", "%s: %s in trainable list" % (where, n))


def close_c(a, b):
    return abs(a - b) <= 1e-9 * (1 + abs(a))


def run_history(ctx, case):
    w = World(case)
    vm = w.vm
    check_structure(ctx, w, "after setup")
    has_tie = bool(w.tie_classes)
    did_coord_after_tie = False
    nops = 0
    skipped_cart_on_shared = 0
    cls = set()
    for op in case["ops"]:
        kind = op[0]
        before = w.snapshot()
        assigned = set()  # real names explicitly assigned by this op
        expect_c_preserved = False
        std_targets = []
        where = "op %d %s" % (nops, op)
        if kind == "set":
            n = w.all_real_names[op[1] % len(w.all_real_names)]
            vm.set(n, op[2], val_in_fit=False)
            assigned = w.class_of(n)
            ctx.check(abs(raw(vm, n) - op[2]) <= 1e-15 * (1 + abs(op[2])), "set_reads_back", "%s: %r" % (where, raw(vm, n)))
        elif kind == "set_all_dict":
            names = [w.all_real_names[k % len(w.all_real_names)] for k in op[1]]
            d = {}
            for n, v in zip(names, op[2]):
                # one value per tie class (a dict assigning two different values to tied names has no defined meaning)
                if not any(m in d for m in w.class_of(n)):
                    d[n] = v
            vm.set_all(d)
            for n in d:
                assigned |= w.class_of(n)
                ctx.check(abs(raw(vm, n) - d[n]) <= 1e-15 * (1 + abs(d[n])), "set_all_reads_back", "%s: %s=%r" % (where, n, raw(vm, n)))
            cls.add("bulk_load")
        elif kind == "set_all_list":
            tv = list(vm.trainable_vars)
            vals = [op[1][i % len(op[1])] for i in range(len(tv))]
            vm.set_all(vals)
            for n, v in zip(tv, vals):
                assigned |= w.class_of(n)
                ctx.check(abs(raw(vm, n) - v) <= 1e-15 * (1 + abs(v)), "set_all_list_reads_back", "%s: %s" % (where, n))
            cls.add("bulk_load")
        elif kind == "roundtrip":
            d = vm.get_all_dic()
            ctx.check(set(w.all_real_names) <= set(d), "get_all_dic_complete", "%s missing %s" % (where, set(w.all_real_names) - set(d)))
            vm.set_all(d)
            expect_c_preserved = True
            cls.add("roundtrip")
            d2 = vm.get_all_dic(trainable_only=True)
            ctx.check(list(d2.keys()) == list(vm.trainable_vars), "trainable_dic_keys", where)
        elif kind == "refresh":
            from tf_pwa.data import set_random_seed

            set_random_seed(op[1])
            vm.refresh_vars()
            assigned = {n for n in w.all_real_names if n not in w.fixed}
            for n, (lo, hi) in w.bounds.items():
                iv = vm.init_val.get(n, None)
                if iv is not None and not hasattr(iv, "__len__") and not ((lo is None or iv >= lo) and (hi is None or iv <= hi)):
                    # refresh_vars resets a variable to its configured start value by design; a start value outside
                    # the configured range is an inconsistent configuration, not a statement of the property
                    ctx.count("refresh_start_value_outside_bound_not_asserted")
                    continue
                if n in vm.trainable_vars:
                    v = raw(vm, n)
                    ctx.check((lo is None or v >= lo - 1e-12) and (hi is None or v <= hi + 1e-12), "refresh_inside_bounds", "%s: %s=%r not in (%s,%s)" % (where, n, v, lo, hi))
            cls.add("refresh")
        elif kind in ("rp2xy", "xy2rp", "std_polar"):
            c = w.cplx[op[1] % len(w.cplx)]
            half_fixed = ((c + "r") in w.fixed) != ((c + "i") in w.fixed)
            if kind == "rp2xy" and (c in w.share_r or half_fixed):
                # |A|=|B| ties and a fixed modulus/phase exist in polar form only
                skipped_cart_on_shared += 1
                continue
            if kind == "xy2rp" and c in w.share_r:
                # already polar by construction
                pass
            getattr(vm, kind)(c)
            expect_c_preserved = True
            if kind == "std_polar":
                std_targets = [c]
            cls.add(kind)
        elif kind in ("rp2xy_all", "trans_cart"):
            if w.share_r or any(((c + "r") in w.fixed) != ((c + "i") in w.fixed) for c in w.cplx):
                skipped_cart_on_shared += 1
                continue
            if kind == "rp2xy_all":
                vm.rp2xy_all()
            else:
                vm.trans_params(False)
            expect_c_preserved = True
            for c in w.cplx:
                ctx.check(vm.complex_vars[c] is False or vm.complex_vars[c] == False, "all_cartesian", "%s: %s still polar" % (where, c))
            cls.add("to_cartesian_all")
        elif kind == "xy2rp_all":
            vm.xy2rp_all()
            expect_c_preserved = True
            cls.add("to_polar_all")
        elif kind in ("std_polar_all", "trans_polar"):
            if kind == "std_polar_all":
                vm.std_polar_all()
            else:
                vm.trans_params(True)
            expect_c_preserved = True
            std_targets = list(w.cplx)
            cls.add("standardise_all")
        elif kind == "standard_complex":
            vm.standard_complex()
            expect_c_preserved = True
            # the fit-time standardisation skips constrained variables
            for c in w.cplx:
                constrained = any(c + k in t for t in w.tie_classes for k in "ri") or (c + "r") in vm.bnd_dic or (c + "i") in vm.bnd_dic
                # a fixed modulus or phase is a constraint as well (the standardisation would have to change the fixed component)
                constrained = constrained or ((c + "r") in vm.trainable_vars) != ((c + "i") in vm.trainable_vars)
                if before["polar"][c] and not constrained:
                    std_targets.append(c)
            cls.add("standard_complex")
        elif kind == "fix":
            n = w.all_real_names[op[1] % len(w.all_real_names)]
            if n[0] == "c":
                continue
            clsn = w.class_of(n)
            free = [m for m in clsn if m in vm.trainable_vars]
            if op[2] and not free and clsn <= w.fixed:
                vm.set_fix(sorted(clsn)[0], unfix=True)
                w.fixed -= clsn
            elif not op[2] and free:
                vm.set_fix(free[0])
                w.fixed |= clsn
            else:
                continue
            expect_c_preserved = True
            cls.add("fix_unfix")
        elif kind == "mask":
            n = w.all_real_names[op[1] % len(w.all_real_names)]
            with vm.mask_params({n: op[2]}):
                got = float(vm.read(n).numpy())
                ctx.check(abs(got - op[2]) <= 1e-6 * (1 + abs(op[2])), "mask_in_effect", "%s: read %r" % (where, got))
            ctx.check(float(vm.read(n).numpy()) == before["raw"][n], "mask_restored", where)
            expect_c_preserved = True
            cls.add("mask")
        elif kind == "minimize":
            tv = list(vm.trainable_vars)
            if not tv:
                continue
            target = {n: op[1][i % len(op[1])] for i, n in enumerate(tv)}

            def fcn():
                tot = 0.0
                for n in tv:
                    tot = tot + (vm.read(n) - target[n]) ** 2
                return tot

            vm.minimize(fcn, method="BFGS", mini_kwargs={"options": {"maxiter": op[2]}})
            assigned = set()
            for n in tv:
                assigned |= w.class_of(n)
            for n, (lo, hi) in w.bounds.items():
                if n not in tv:
                    continue  # a fixed parameter keeps whatever was assigned to it
                v = raw(vm, n)
                ctx.check((lo is None or v >= lo - 1e-9) and (hi is None or v <= hi + 1e-9), "minimize_inside_bounds", "%s: %s=%r not in (%s,%s)" % (where, n, v, lo, hi))
            cls.add("fit_step")
        else:
            continue
        nops += 1
        after = w.snapshot()
        check_structure(ctx, w, where)
        # nothing but the assigned names changes
        for n in w.all_real_names:
            if n in assigned:
                continue
            if expect_c_preserved and n[0] == "c":
                continue  # representation may change, value checked below
            ctx.check(after["raw"][n] == before["raw"][n], "fixed_changed_without_assignment" if n in w.fixed else "unassigned_value_changed", "%s: %s %r -> %r" % (where, n, before["raw"][n], after["raw"][n]))
        if expect_c_preserved:
            for c in w.cplx:
                ctx.check(close_c(after["c"][c], before["c"][c]), "complex_value_preserved", "%s: %s %r -> %r (polar %s->%s)" % (where, c, before["c"][c], after["c"][c], before["polar"][c], after["polar"][c]))
            for c in w.cplx:
                # a fixed complex variable that was explicitly assigned a
                # non-standard (r<0 / out-of-range phase) value can only be
                # standardised by re-expressing it: asserted when it was standard
                was_std = before["polar"][c] and before["raw"][c + "r"] >= 0 and -math.pi <= before["raw"][c + "i"] < math.pi
                coord_op = kind in ("rp2xy", "xy2rp", "rp2xy_all", "xy2rp_all", "trans_cart", "trans_polar", "std_polar", "std_polar_all", "standard_complex")
                same_form = before["polar"][c] == after["polar"][c]
                for k in "ri":
                    if c + k in w.fixed and ((was_std and same_form) or not coord_op):
                        ctx.check(after["raw"][c + k] == before["raw"][c + k], "fixed_changed_without_assignment", "%s: %s" % (where, c + k))
            if has_tie:
                did_coord_after_tie = True
        for c in std_targets:
            r, p = after["raw"][c + "r"], after["raw"][c + "i"]
            ctx.check(after["polar"][c] is True or after["polar"][c] == True, "standardised_is_polar", "%s: %s" % (where, c))
            ctx.check(r >= -1e-300, "standardised_r_nonnegative", "%s: %s r=%r" % (where, c, r))
            ctx.check(-math.pi <= p < math.pi + 1e-12, "standardised_phase_range", "%s: %s phi=%r not in [-pi,pi)" % (where, c, p))
    if w.share_r:
        cls.add("shared_radius")
    if w.full_tied:
        cls.add("full_complex_tie")
    if w.bounds:
        cls.add("bounded")
    return {
        "nontrivial": has_tie and did_coord_after_tie and nops >= 8,
        "classes": sorted(cls),
        "skipped_cartesian_on_shared_radius": skipped_cart_on_shared,
    }


@oracle
def history(ctx, case):
    return run_history(ctx, case)


# ------------------------------------------------------------------ Bound
@oracle
def bound_inverse(ctx, case):
    env.tfpwa()
    import sympy as sy

    from tf_pwa.variable import Bound

    kind = case["kind"]
    a, w_ = case["a"], case["width"]
    func = None
    if kind == "two":
        lo, hi = a, a + w_
    elif kind == "lower":
        lo, hi = a, None
    elif kind == "upper":
        lo, hi = None, a
    else:
        lo, hi = a, a + w_
        func = case["func"]
    b = Bound(lo, hi, func=func)
    closed = func is None
    x_s = sy.symbols("x")
    expr = sy.sympify(b.func).subs({"a": lo if lo is not None else -1e9, "b": hi if hi is not None else 1e9})
    dexpr = sy.diff(expr, x_s)
    for t in case["ys"]:
        if kind in ("two", "custom"):
            y = lo + (hi - lo) * (t if closed else min(max(t, 1e-6), 1 - 1e-6))
        elif kind == "lower":
            y = lo + 10 * t / (1.0001 - t) if t < 1 else lo + 1e3
        else:
            y = hi - 10 * t / (1.0001 - t) if t < 1 else hi - 1e3
        x = b.get_y2x(y)
        ctx.check(math.isfinite(x), "y2x_finite", "y=%r -> x=%r (%s)" % (y, x, b.func))
        y2 = b.get_x2y(x)
        scale = abs(y) + (hi - lo if (lo is not None and hi is not None) else 1.0)
        ctx.check(abs(y2 - y) <= 1e-7 * scale, "x2y_y2x_identity", "%s on (%s,%s): y=%r -> x=%r -> y=%r" % (b.func, lo, hi, y, x, y2))
    for x in case["xs"]:
        y = b.get_x2y(x)
        if lo is not None:
            ctx.check(y >= lo - 1e-9 * (1 + abs(lo)), "x2y_in_range", "x=%r y=%r < lower %r" % (x, y, lo))
        if hi is not None:
            ctx.check(y <= hi + 1e-9 * (1 + abs(hi)), "x2y_in_range", "x=%r y=%r > upper %r" % (x, y, hi))
        x2 = b.get_y2x(y)
        y3 = b.get_x2y(x2)
        ctx.check(abs(y3 - y) <= 1e-7 * (1 + abs(y)), "y2x_x2y_same_y", "%s: x=%r -> y=%r -> x=%r -> y=%r" % (b.func, x, y, x2, y3))
        d = b.get_dydx(x)
        dref = float(dexpr.evalf(30, subs={x_s: x}))
        ctx.check(abs(d - dref) <= 1e-9 * (1 + abs(dref)), "slope_is_derivative", "dydx(%r)=%r, analytic %r" % (x, d, dref))
        h = 1e-5 * (1 + abs(x))
        fd = (b.get_x2y(x + h) - b.get_x2y(x - h)) / (2 * h)
        ctx.check(abs(d - fd) <= 1e-5 * (1 + abs(fd)), "slope_is_finite_difference", "dydx(%r)=%r, FD %r" % (x, d, fd))
        d2 = b.get_d2ydx2(x)
        fd2 = (b.get_dydx(x + h) - b.get_dydx(x - h)) / (2 * h)
        ctx.check(abs(d2 - fd2) <= 1e-4 * (1 + abs(fd2)), "second_derivative", "d2ydx2(%r)=%r, FD %r" % (x, d2, fd2))
    return {"nontrivial": True, "classes": [kind]}


# ------------------------------------------------------------- strategies
val = st.one_of(st.floats(-3, 3), st.sampled_from([0.0, -1.5, 2.5, 0.3]))
phase = st.one_of(st.floats(-3.1, 3.1), st.sampled_from([4.0, 6.04, -5.0, 9.5, math.pi, -math.pi]), st.floats(-12, 12))
radius = st.one_of(st.floats(0.1, 3.0), st.floats(-3.0, -0.1), st.sampled_from([1.0, -1.0, 0.0]))
setup_st = st.fixed_dictionaries(
    {
        "reals": st.lists(val, min_size=1, max_size=4),
        "cplx": st.lists(st.tuples(radius, phase, st.booleans()), min_size=1, max_size=4),
        "ties": st.lists(st.tuples(st.sampled_from(["real", "cplx", "share_r", "real_all", "real_chain", "cplx_chain", "real_merge"]), st.integers(0, 3), st.integers(0, 3)), max_size=3),
        "fix": st.lists(st.integers(0, 10), max_size=3),
        "bounds": st.lists(st.tuples(st.integers(0, 2), st.sampled_from(["two", "lower", "upper"]), st.floats(0.1, 2.0), st.floats(0.1, 2.0)), max_size=2),
        "order": st.sampled_from(["tfb", "fbt"]),
        "no_init": st.lists(st.integers(0, 2), max_size=2, unique=True),
    }
)
idx = st.integers(0, 10)
op_st = st.one_of(
    st.tuples(st.just("set"), idx, st.one_of(val, phase)),
    st.tuples(st.just("set_all_dict"), st.lists(idx, min_size=1, max_size=4), st.lists(st.one_of(val, radius), min_size=4, max_size=4)),
    st.tuples(st.just("set_all_list"), st.lists(val, min_size=1, max_size=6)),
    st.tuples(st.just("roundtrip")),
    st.tuples(st.just("refresh"), st.integers(0, 10**6)),
    st.tuples(st.sampled_from(["rp2xy", "xy2rp", "std_polar"]), idx),
    st.tuples(st.sampled_from(["rp2xy_all", "xy2rp_all", "std_polar_all", "standard_complex", "trans_cart", "trans_polar"])),
    st.tuples(st.just("fix"), idx, st.booleans()),
    st.tuples(st.just("mask"), idx, val),
)
fit_op = st.tuples(st.just("minimize"), st.lists(st.floats(-2, 2), min_size=1, max_size=5), st.integers(1, 8))
hist_st = st.fixed_dictionaries({"setup": setup_st, "ops": st.lists(op_st, min_size=1, max_size=25)})
hist_fit_st = st.fixed_dictionaries({"setup": setup_st, "ops": st.lists(st.one_of(op_st, fit_op), min_size=2, max_size=10)})
bound_st = st.fixed_dictionaries(
    {
        "kind": st.sampled_from(["two", "lower", "upper", "custom"]),
        "a": st.floats(-5, 5),
        "width": st.floats(0.01, 10),
        "func": st.sampled_from(["(b-a)/(1+exp(-x))+a", "(b-a)*(tanh(x)+1)/2+a", "(b-a)*(atan(x)/pi+1/2)+a"]),
        "ys": st.lists(st.one_of(st.floats(0, 1), st.sampled_from([0.0, 1.0, 0.5])), min_size=3, max_size=8),
        "xs": st.lists(st.floats(-6, 6), min_size=3, max_size=8),
    }
)


def run_hist(ctx):
    ctx.run_cases(history, hist_st, ctx.n(1500, 40000))


def run_hist_fit(ctx):
    ctx.run_cases(history, hist_fit_st, ctx.n(160, 4000), name="history_with_fit_steps")


def run_bound(ctx):
    ctx.run_cases(bound_inverse, bound_st, ctx.n(240, 6000))


SUBCHECKS = [
    Sub("pinned", run_pinned, shards=(1, 1), budget=(100, 300)),
    Sub("history", run_hist, shards=(6, 12), budget=(200, 2400), weight=2),
    Sub("history_fit", run_hist_fit, shards=(4, 8), budget=(200, 2400), weight=2),
    Sub("bound", run_bound, shards=(4, 6), budget=(200, 1800), weight=2),
]
