"""C13 - partial-wave (l,s) selection is sound, complete, non-redundant."""

import itertools
from fractions import Fraction as F

import numpy as np
from hypothesis import strategies as st

from vlib import env, refmath
from vlib.api import Sub, oracle

RULE = (
    "exhaustive: all (J_A,J_B,J_C) in {0,1/2,...,4}^3 with integer J_A+J_B+J_C parity of spin sum consistent, x 8 parity combinations x p_break x "
    "C-parity constraint (integer spins), for the free function and for the decay object; rank/count of the coupling->helicity matrix for all spins <=5/2 (quick) / <=3 (thorough); "
    "Hypothesis: l_list / ls_list restrictions and name-reuse histories (same particle names, different quantum numbers, one process). "
    "non-trivial = at least 2 allowed (l,s) or a half-integer spin; distinct = hash of the tuple"
)
ASSUMPTIONS = [
    "reference rule coded independently: s in |jb-jc|..jb+jc, integer l in |ja-s|..ja+s, (-1)^l = Pa Pb Pc unless p_break, C = (-1)^(l+s) when requested",
    "independent helicity amplitudes: pairs |lb-lc|<=ja; with parity conservation pairs (lb,lc)~(-lb,-lc), the (0,0) pair counted only for eta=+1",
    "ls_list restrictions are drawn as sub-lists of the allowed list (a user-supplied forbidden pair is an explicit override, not asserted)",
]


def frange(a, b):
    out = []
    x = F(a)
    while x <= b:
        out.append(x)
        x += 1
    return out


def ref_ls(ja, jb, jc, pa, pb, pc, p_break, ca=None):
    ja, jb, jc = F(ja), F(jb), F(jc)
    out = []
    for s in frange(abs(jb - jc), jb + jc):
        for l in frange(abs(ja - s), ja + s):
            if l.denominator != 1:
                continue
            l_ = int(l)
            if not p_break and (-1) ** l_ != pa * pb * pc:
                continue
            if ca is not None:
                if s.denominator != 1 or (-1) ** (l_ + int(s)) != ca:
                    continue
            out.append((l_, s))
    return out


def n_independent_helicity(ja, jb, jc, pa, pb, pc, p_break):
    ja, jb, jc = F(ja), F(jb), F(jc)
    pairs = [(lb, lc) for lb in frange(-jb, jb) for lc in frange(-jc, jc) if abs(lb - lc) <= ja]
    if p_break:
        return len(pairs)
    n0 = sum(1 for p in pairs if p == (0, 0))
    eta = pa * pb * pc * (-1) ** int(ja - jb - jc) if (ja - jb - jc).denominator == 1 else None
    n = (len(pairs) - n0) // 2
    if n0:
        n += 1 if eta == 1 else 0
    return n


def tofloat(x):
    x = F(x)
    return int(x) if x.denominator == 1 else float(x)


def norm_ls(ls):
    return [(int(l), F(s).limit_denominator(2)) for l, s in ls]


def spins(nmax2):
    return [F(i, 2) for i in range(nmax2 + 1)]


def spin_triples(nmax2):
    for ja, jb, jc in itertools.product(spins(nmax2), repeat=3):
        if (ja + jb + jc).denominator != 1:
            continue  # fermion number
        yield ja, jb, jc


def js(x):
    return [x.numerator, x.denominator]


@oracle
def ls_function(ctx, case):
    env.plain_tfpwa()
    from tf_pwa.particle import GetA2BC_LS_list

    ja, jb, jc = (F(*case[k]) for k in ("ja", "jb", "jc"))
    n = 0
    nt = False
    for pa, pb, pc in itertools.product((1, -1), repeat=3):
        for p_break in (False, True):
            cas = [None]
            if all(x.denominator == 1 for x in (ja, jb, jc)):
                cas += [1, -1]
            for ca in cas:
                lib = GetA2BC_LS_list(tofloat(ja), tofloat(jb), tofloat(jc), pa, pb, pc, p_break=p_break, ca=ca)
                ref = ref_ls(ja, jb, jc, pa, pb, pc, p_break, ca)
                libn = norm_ls(lib)
                ctx.check(len(set(libn)) == len(libn), "no_duplicates", "%s for %s" % (lib, (ja, jb, jc, pa, pb, pc, p_break, ca)))
                ctx.check(sorted(libn) == sorted(ref), "ls_set", "J=(%s,%s,%s) P=(%d,%d,%d) p_break=%s C=%s: lib %s, rule %s" % (ja, jb, jc, pa, pb, pc, p_break, ca, lib, ref))
                n += 1
                nt = nt or len(ref) >= 2
    # parities not given -> parity not enforced
    lib = norm_ls(GetA2BC_LS_list(tofloat(ja), tofloat(jb), tofloat(jc)))
    ctx.check(sorted(lib) == sorted(ref_ls(ja, jb, jc, 1, 1, 1, True)), "ls_set_no_parity", str(lib))
    half = any(x.denominator == 2 for x in (ja, jb, jc))
    return {"nontrivial": nt or half, "classes": ["half_integer" if half else "integer"], "configs": n}


def make_decay(ja, jb, jc, pa, pb, pc, names=None, **kw):
    env.tfpwa()
    from tf_pwa.amp.core import get_decay, get_particle

    sfx = env.uniq()
    names = names or ["A" + sfx, "B" + sfx, "C" + sfx]
    a = get_particle(names[0], J=tofloat(ja), P=pa, **({"C": kw.pop("C")} if "C" in kw else {}))
    b = get_particle(names[1], J=tofloat(jb), P=pb)
    c = get_particle(names[2], J=tofloat(jc), P=pc)
    return get_decay(a, [b, c], **kw)


def check_matrix(ctx, dec, ja, jb, jc, pa, pb, pc, p_break, exact_rank):
    ls = norm_ls(dec.get_ls_list())
    m = np.asarray(dec.get_cg_matrix())
    nb, nc = int(2 * F(jb) + 1), int(2 * F(jc) + 1)
    ctx.check(m.shape == (len(ls), nb, nc), "matrix_shape", "shape %s for J=(%s,%s,%s), n_ls=%d" % (m.shape, ja, jb, jc, len(ls)))
    # entries against the documented formula with exact CG
    lbs = frange(-F(jb), F(jb))
    lcs = frange(-F(jc), F(jc))
    ref = np.zeros(m.shape)
    for i, (l, s) in enumerate(ls):
        for ib, lb in enumerate(lbs):
            for ic, lc in enumerate(lcs):
                d = lb - lc
                ref[i, ib, ic] = (
                    np.sqrt((2 * l + 1) / float(2 * F(ja) + 1))
                    * refmath.cg_float(F(jb), lb, F(jc), -lc, s, d)
                    * refmath.cg_float(l, 0, s, d, F(ja), d)
                )
    ctx.close(m, ref, "matrix_entries", rtol=0, atol=1e-12, what="cg matrix J=(%s,%s,%s) ls=%s" % (ja, jb, jc, ls))
    nind = n_independent_helicity(ja, jb, jc, pa, pb, pc, p_break)
    ctx.check(len(ls) == nind, "count_equals_independent_helicities", "n_ls=%d, independent helicity amplitudes=%d for J=(%s,%s,%s) P=(%d,%d,%d) p_break=%s" % (len(ls), nind, ja, jb, jc, pa, pb, pc, p_break))
    if len(ls):
        flat = m.reshape(len(ls), -1)
        sv = np.linalg.svd(flat, compute_uv=False)
        rank = int(np.sum(sv > 1e-9 * max(1.0, sv[0])))
        ctx.check(rank == len(ls), "full_rank", "rank %d < n_ls %d for J=(%s,%s,%s) P=(%d,%d,%d); singular values %s" % (rank, len(ls), ja, jb, jc, pa, pb, pc, sv))
        if exact_rank:
            import sympy as sp

            rows = []
            for i, (l, s) in enumerate(ls):
                row = []
                for lb in lbs:
                    for lc in lcs:
                        d = lb - lc
                        s1, v1 = refmath.cg_exact2(*[int(2 * x) for x in (F(jb), lb, F(jc), -lc, s, d)])
                        s2, v2 = refmath.cg_exact2(*[int(2 * x) for x in (F(l), 0, s, d, F(ja), d)])
                        row.append(s1 * s2 * sp.sqrt(sp.Rational(v1.numerator, v1.denominator) * sp.Rational(v2.numerator, v2.denominator)))
                rows.append(row)
            r = sp.Matrix(rows).rank()
            ctx.check(r == len(ls), "full_rank_exact", "exact rank %d < %d" % (r, len(ls)))


@oracle
def decay_object(ctx, case):
    """HelicityDecay.get_ls_list / get_cg_matrix for one spin assignment, all
    parity combinations and p_break."""
    ja, jb, jc = (F(*case[k]) for k in ("ja", "jb", "jc"))
    nt = False
    n = 0
    for pa, pb, pc in itertools.product((1, -1), repeat=3):
        for p_break in (False, True):
            dec = make_decay(ja, jb, jc, pa, pb, pc, p_break=p_break)
            lib = norm_ls(dec.get_ls_list())
            ref = ref_ls(ja, jb, jc, pa, pb, pc, p_break)
            ctx.check(lib == ref or sorted(lib) == sorted(ref), "decay_ls_set", "J=(%s,%s,%s) P=(%d,%d,%d) p_break=%s: lib %s rule %s" % (ja, jb, jc, pa, pb, pc, p_break, lib, ref))
            ctx.check(len(set(lib)) == len(lib), "decay_no_duplicates", str(lib))
            if case.get("matrix", True):
                check_matrix(ctx, dec, ja, jb, jc, pa, pb, pc, p_break, exact_rank=case.get("exact", False) and pa == 1 and pb == 1)
            nt = nt or len(ref) >= 2
            n += 1
    half = any(x.denominator == 2 for x in (ja, jb, jc))
    return {"nontrivial": nt or half, "classes": ["half_integer" if half else "integer"], "configs": n}


@oracle
def c_parity(ctx, case):
    ja, jb, jc = case["ja"], case["jb"], case["jc"]
    pa, pb, pc = case["P"]
    for C in (1, -1):
        dec = make_decay(ja, jb, jc, pa, pb, pc, p_break=case["p_break"], c_break=False, C=C)
        lib = norm_ls(dec.get_ls_list())
        ref = ref_ls(ja, jb, jc, pa, pb, pc, case["p_break"], C)
        ctx.check(sorted(lib) == sorted(ref), "c_parity_ls_set", "J=%s P=%s C=%d p_break=%s: lib %s rule %s" % ((ja, jb, jc), (pa, pb, pc), C, case["p_break"], lib, ref))
    dec = make_decay(ja, jb, jc, pa, pb, pc, p_break=case["p_break"], c_break=True, C=1)
    ctx.check(sorted(norm_ls(dec.get_ls_list())) == sorted(ref_ls(ja, jb, jc, pa, pb, pc, case["p_break"])), "c_break_ignored", "")
    return {"nontrivial": ja + jb + jc >= 2, "classes": ["c_parity"]}


@oracle
def restrictions(ctx, case):
    ja, jb, jc = (F(*case[k]) for k in ("ja", "jb", "jc"))
    pa, pb, pc = case["P"]
    ref = ref_ls(ja, jb, jc, pa, pb, pc, case["p_break"])
    if not ref:
        return {"skip": "no_allowed_ls"}
    cls = []
    if case["mode"] == "l_list":
        l_list = case["l_list"]
        dec = make_decay(ja, jb, jc, pa, pb, pc, p_break=case["p_break"], l_list=list(l_list))
        want = [x for x in ref if x[0] in l_list]
        lib = norm_ls(dec.get_ls_list())
        ctx.check(lib == want, "l_list_filter", "l_list=%s: lib %s expected %s (allowed %s)" % (l_list, lib, want, ref))
        # idempotent on repeated query
        ctx.check(norm_ls(dec.get_ls_list()) == want, "l_list_filter_repeat", "")
        cls.append("l_list")
    else:
        idx = sorted({i % len(ref) for i in case["pick"]}) or [0]
        sub = [ref[i] for i in idx]
        dec = make_decay(ja, jb, jc, pa, pb, pc, p_break=case["p_break"], ls_list=[[l, tofloat(s)] for l, s in sub])
        lib = norm_ls(dec.get_ls_list())
        ctx.check(lib == sub, "ls_list_filter", "ls_list=%s: lib %s" % (sub, lib))
        want = sub
        cls.append("ls_list")
    if want:
        m = np.asarray(dec.get_cg_matrix())
        ctx.check(m.shape[0] == len(want), "restricted_matrix_rows", "%s vs %d" % (m.shape, len(want)))
        flat = m.reshape(len(want), -1)
        rank = np.linalg.matrix_rank(flat, tol=1e-9)
        ctx.check(rank == len(want), "restricted_full_rank", "rank %d of %d" % (rank, len(want)))
    return {"nontrivial": len(ref) >= 2 and 0 < len(want) < len(ref), "classes": cls}


@oracle
def name_reuse_history(ctx, case):
    """Several decays built one after another in the same process with the
    SAME particle names but different quantum numbers: each decay's matrix must
    be that of its own spins."""
    names = ["Areuse", "Breuse", "Creuse"]
    if case.get("fresh_names", False):
        names = None
    nt = 0
    seen_ls = {}
    for step in case["steps"]:
        ja, jb, jc = (F(*step[k]) for k in ("ja", "jb", "jc"))
        pa, pb, pc = step["P"]
        dec = make_decay(ja, jb, jc, pa, pb, pc, names=list(names) if names else None, p_break=step["p_break"])
        ref = ref_ls(ja, jb, jc, pa, pb, pc, step["p_break"])
        lib = norm_ls(dec.get_ls_list())
        ctx.check(sorted(lib) == sorted(ref), "history_ls_set", "step %s: lib %s rule %s" % (step, lib, ref))
        if ref:
            check_matrix(ctx, dec, ja, jb, jc, pa, pb, pc, step["p_break"], False)
            if all(x.denominator == 1 for x in (ja, jb, jc)):
                # the plain (model-independent) Decay class offers the same map
                from tf_pwa.particle import BaseParticle, Decay

                nm = names or ["Ab", "Bb", "Cb"]
                pd = Decay(
                    BaseParticle(nm[0], J=int(ja), P=pa),
                    [BaseParticle(nm[1], J=int(jb), P=pb), BaseParticle(nm[2], J=int(jc), P=pc)],
                    p_break=step["p_break"],
                    disable=True,
                )
                pm = np.asarray(pd.get_cg_matrix())
                want_shape = (int(2 * jb + 1) * int(2 * jc + 1), len(ref))
                ctx.check(pm.shape == want_shape, "base_decay_matrix_shape", "shape %s expected %s for J=(%s,%s,%s)" % (pm.shape, want_shape, ja, jb, jc))
                ctx.check(pd.get_min_l() == min(l for l, _ in ref), "base_decay_min_l", "get_min_l()=%s, allowed %s" % (pd.get_min_l(), ref))
            k = tuple(lib)
            if k in seen_ls and seen_ls[k] != (ja, jb, jc):
                nt += 1
            seen_ls.setdefault(k, (ja, jb, jc))
    return {"nontrivial": nt > 0, "classes": ["same_ls_tuple_different_spins"] if nt else []}


# ---------------------------------------------------------------- drivers
def run_function(ctx):
    cases = [{"ja": js(a), "jb": js(b), "jc": js(c)} for a, b, c in spin_triples(8)]
    ctx.run_enum(ls_function, cases, name="ls_function_all_spins<=4")


def run_object(ctx):
    nmax2 = 5 if ctx.quick else 6
    cases = [{"ja": js(a), "jb": js(b), "jc": js(c), "matrix": True, "exact": max(a, b, c) <= F(3, 2)} for a, b, c in spin_triples(nmax2)]
    ctx.run_enum(decay_object, cases, name="decay_object_rank_spins<=%s" % F(nmax2, 2))
    # ls list only (no matrix) up to spin 4 in thorough
    if not ctx.quick:
        cases = [{"ja": js(a), "jb": js(b), "jc": js(c), "matrix": False} for a, b, c in spin_triples(8) if max(a, b, c) > F(nmax2, 2)]
        ctx.run_enum(decay_object, cases, name="decay_object_ls_spins<=4")


spin_st = st.integers(0, 6).map(lambda k: [k, 2] if k % 2 else [k // 2, 1])
par_st = st.tuples(st.sampled_from([1, -1]), st.sampled_from([1, -1]), st.sampled_from([1, -1]))


def _consistent(d):
    s = F(*d["ja"]) + F(*d["jb"]) + F(*d["jc"])
    if s.denominator != 1:
        d = dict(d)
        jc = F(*d["jc"]) + F(1, 2)
        d["jc"] = js(jc)
    return d


restr_st = st.fixed_dictionaries(
    {
        "ja": spin_st,
        "jb": spin_st,
        "jc": spin_st,
        "P": par_st,
        "p_break": st.booleans(),
        "mode": st.sampled_from(["l_list", "ls_list"]),
        "l_list": st.lists(st.integers(0, 6), min_size=1, max_size=4, unique=True),
        "pick": st.lists(st.integers(0, 30), min_size=1, max_size=5),
    }
).map(_consistent)

cpar_st = st.fixed_dictionaries({"ja": st.integers(0, 4), "jb": st.integers(0, 3), "jc": st.integers(0, 3), "P": par_st, "p_break": st.booleans()})

step_st = st.fixed_dictionaries({"ja": spin_st, "jb": spin_st, "jc": spin_st, "P": par_st, "p_break": st.booleans()}).map(_consistent)


def _swap_variants(steps):
    # make collisions likely: follow each step by the same decay with B,C spins swapped
    out = []
    for s in steps:
        out.append(s)
        t = dict(s)
        t["jb"], t["jc"] = s["jc"], s["jb"]
        P = list(s["P"])
        t["P"] = [P[0], P[2], P[1]]
        out.append(t)
    return out


hist_st = st.fixed_dictionaries({"steps": st.lists(step_st, min_size=1, max_size=4).map(_swap_variants), "fresh_names": st.just(False)})


def run_restrictions(ctx):
    ctx.run_cases(restrictions, restr_st, ctx.n(600, 20000))
    ctx.run_cases(c_parity, cpar_st, ctx.n(200, 4000))


def run_history(ctx):
    ctx.run_cases(name_reuse_history, hist_st, ctx.n(300, 8000))


SUBCHECKS = [
    Sub("ls_function", run_function, shards=(2, 2), budget=(200, 1200)),
    Sub("decay_object", run_object, shards=(8, 12), budget=(200, 3000), weight=3),
    Sub("restrictions", run_restrictions, shards=(3, 6), budget=(200, 1800)),
    Sub("name_reuse", run_history, shards=(3, 6), budget=(200, 1800)),
]
