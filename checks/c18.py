"""C18 - structured event data operations are lossless."""

import math
import os

import numpy as np
from hypothesis import strategies as st

from vlib import cards, env, kin
from vlib.api import Sub, oracle

RULE = (
    "nested dict/list/tuple structures (depth<=4, empty containers at any level, float/complex leaves with trailing dims) with shared sample size n in 1..40 and a "
    "large class n in 1001..1100; batch sizes {1, n-1, n, n+1, 2n, primes}; boolean masks incl. all-true/all-false; index paths; particle-split multi-file inputs in txt/npy/npz "
    "with permuted particle orders; ConfigLoader dat_order permutations, cached_data, lazy_call / lazy_file. "
    "non-trivial = (depth>=2 with an empty container, or batch not dividing n) for splits; >=2 files or a non-identity order for files; distinct = hash of the case"
)
ASSUMPTIONS = [
    "sample size n >= 1 and at least one array leaf (a structure without leaves has no sample axis)",
    "text files are compared at numpy.savetxt precision (rtol 1e-15 after %.18e formatting), binary formats exactly",
]


# ------------------------------------------------------------ structures
def build_struct(spec, n):
    t = spec["t"]
    if t == "leaf":
        shape = (n,) + tuple(spec["dims"])
        size = int(np.prod(shape))
        base = spec["seed"] * 1000.0
        a = base + np.arange(size, dtype=float).reshape(shape)
        if spec["complex"]:
            a = a + 1j * (a + 0.5)
        return a
    if t == "dict":
        return {k: build_struct(v, n) for k, v in spec["items"]}
    if t == "list":
        return [build_struct(v, n) for v in spec["items"]]
    return tuple(build_struct(v, n) for v in spec["items"])


def has_leaf(spec):
    if spec["t"] == "leaf":
        return True
    items = [v for _, v in spec["items"]] if spec["t"] == "dict" else spec["items"]
    return any(has_leaf(v) for v in items)


def has_empty(spec):
    if spec["t"] == "leaf":
        return False
    items = [v for _, v in spec["items"]] if spec["t"] == "dict" else spec["items"]
    return len(items) == 0 or any(has_empty(v) for v in items)


def depth(spec):
    if spec["t"] == "leaf":
        return 0
    items = [v for _, v in spec["items"]] if spec["t"] == "dict" else spec["items"]
    return 1 + max([depth(v) for v in items], default=0)


def same(ctx, a, b, clause, path="$"):
    """Structure + values equal; dict key order ignored, container types kept."""
    if isinstance(b, dict):
        ctx.check(isinstance(a, dict), clause, "%s: expected dict, got %s" % (path, type(a).__name__))
        ctx.check(set(a.keys()) == set(b.keys()), clause, "%s: keys %s vs %s" % (path, sorted(map(str, a)), sorted(map(str, b))))
        for k in b:
            same(ctx, a[k], b[k], clause, path + "/" + str(k))
    elif isinstance(b, (list, tuple)):
        ctx.check(type(a) is type(b), clause, "%s: container %s vs %s" % (path, type(a).__name__, type(b).__name__))
        ctx.check(len(a) == len(b), clause, "%s: len %d vs %d" % (path, len(a), len(b)))
        for i, (x, y) in enumerate(zip(a, b)):
            same(ctx, x, y, clause, "%s[%d]" % (path, i))
    else:
        x = np.asarray(a)
        y = np.asarray(b)
        ctx.check(x.shape == y.shape, clause, "%s: shape %s vs %s" % (path, x.shape, y.shape))
        ctx.check(np.array_equal(x, y), clause, "%s: values differ (first rows %s vs %s)" % (path, x[:2], y[:2]))


def leaves(d):
    if isinstance(d, dict):
        for v in d.values():
            yield from leaves(v)
    elif isinstance(d, (list, tuple)):
        for v in d:
            yield from leaves(v)
    else:
        yield d


def batch_of(case, n):
    b = case["batch"]
    kind = b[0]
    if kind == "abs":
        return max(1, b[1])
    return max(1, {"n-1": n - 1, "n": n, "n+1": n + 1, "2n": 2 * n, "one": 1}[kind])


@oracle
def split_merge(ctx, case):
    env.tfpwa()
    from tf_pwa.data import batch_call, data_map, data_mask, data_merge, data_shape, data_split

    spec = case["spec"]
    if not has_leaf(spec):
        return {"skip": "no_leaf"}
    n = case["n"]
    d = build_struct(spec, n)
    b = batch_of(case, n)
    pieces = list(data_split(d, b))
    want = int(math.ceil(n / float(b)))
    ctx.check(len(pieces) == want, "split_count", "n=%d batch=%d: %d pieces, expected %d" % (n, b, len(pieces), want))
    sizes = []
    for pc in pieces:
        ls = list(leaves(pc))
        szs = {np.asarray(x).shape[0] for x in ls}
        ctx.check(len(szs) == 1, "piece_leaf_sizes", str(szs))
        sizes.append(szs.pop())
    ctx.check(all(s == b for s in sizes[:-1]) and 0 < sizes[-1] <= b and sum(sizes) == n, "piece_sizes", "%s for n=%d b=%d" % (sizes[:5], n, b))
    merged = data_merge(*pieces)
    same(ctx, merged, d, "split_merge_identity")
    ctx.check(int(data_shape(d)) == n, "data_shape", "%s vs %d" % (data_shape(d), n))
    # batch-wise application of an element-wise function == whole-sample call
    f_struct = lambda x: data_map(x, lambda a: a * 2 + 1)
    same(ctx, batch_call(f_struct, d, b), f_struct(d), "batch_call_struct")

    def f_sum(x):
        tot = 0
        for a in leaves(x):
            a = np.asarray(a)
            tot = tot + a.reshape(a.shape[0], -1).sum(axis=1)
        return tot

    got = np.asarray(batch_call(f_sum, d, b))
    ctx.check(np.array_equal(got, f_sum(d)), "batch_call_sum", "per-event sums differ")
    # masks
    mk = case["mask"]
    if mk == "all":
        mask = np.ones(n, dtype=bool)
    elif mk == "none":
        mask = np.zeros(n, dtype=bool)
    else:
        mask = np.array([(mk * 2654435761 + 40503 * i) % 7 < 3 for i in range(n)], dtype=bool)
    masked = data_mask(d, mask)
    ref = data_map(d, lambda a: a[mask])
    same(ctx, masked, ref, "mask_selects_addressed_events")
    nt = (depth(spec) >= 2 and has_empty(spec)) or (n % b != 0 and b < n)
    cls = ["n>1000"] if n > 1000 else []
    if has_empty(spec):
        cls.append("empty_container")
    if b > n:
        cls.append("batch>n")
    if n % b:
        cls.append("non_dividing")
    if b == 1:
        cls.append("batch=1")
    if any(True for _ in _tuples(spec)):
        cls.append("has_tuple")
    return {"nontrivial": nt, "classes": cls}


def _tuples(spec):
    if spec["t"] == "tuple":
        yield spec
    if spec["t"] != "leaf":
        items = [v for _, v in spec["items"]] if spec["t"] == "dict" else spec["items"]
        for v in items:
            yield from _tuples(v)


@oracle
def index_paths(ctx, case):
    env.tfpwa()
    from tf_pwa.data import data_index, data_to_numpy, data_to_tensor, flatten_dict_data

    spec = case["spec"]
    n = case["n"]
    d = build_struct(spec, n)
    npaths = 0

    def walk(node, sp, path):
        nonlocal npaths
        if path:
            got = data_index(d, list(path))
            same(ctx, got, node, "data_index_path")
            npaths += 1
        if sp["t"] == "dict":
            for k, v in sp["items"]:
                walk(node[k], v, path + [k])
        elif sp["t"] in ("list", "tuple"):
            for i, v in enumerate(sp["items"]):
                walk(node[i], v, path + [i])

    walk(d, spec, [])
    same(ctx, data_to_numpy(data_to_tensor(d)), d, "tensor_numpy_roundtrip")
    return {"nontrivial": npaths >= 3, "classes": ["paths>=3"] if npaths >= 3 else []}


# ------------------------------------------------------------------ files
def events(nev, npart, seed):
    rng = np.random.RandomState(seed)
    m = [0.1 + 0.1 * i for i in range(npart)]
    u = rng.uniform(size=(nev, 3 * npart))
    return kin.gen_n_body(sum(m) + 1.0, m, u)


@oracle
def dat_files(ctx, case):
    env.tfpwa()
    from tf_pwa.data import load_dat_file, load_data, save_data

    npart = case["npart"]
    nev = case["nev"]
    p = events(nev, npart, case["seed"])
    perm = sorted(range(npart), key=lambda i: case["perm"][i % len(case["perm"])] * 100 + i)
    names = ["P%d" % i for i in range(npart)]
    order = [names[i] for i in perm]  # order in which particles appear in the files
    # consecutive groups -> one file each
    cuts = sorted({c % npart for c in case["cuts"]} - {0})
    groups = []
    start = 0
    for c in cuts + [npart]:
        groups.append(order[start:c])
        start = c
    files = []
    for gi, g in enumerate(groups):
        block = np.stack([p[names.index(x)] for x in g]).transpose((1, 0, 2)).reshape(-1, 4)
        fmt = case["fmt"][gi % len(case["fmt"])]
        fn = "f%d_%d.%s" % (case["seed"] % 1000, gi, {"txt": "dat", "npy": "npy", "npz": "npz"}[fmt])
        if fmt == "txt":
            np.savetxt(fn, block)
        elif fmt == "npy":
            np.save(fn, block)
        else:
            np.savez(fn, block)
        files.append(fn)
    try:
        got = load_dat_file(files if len(files) > 1 else files[0], order)
        ctx.check(list(got.keys()) == order, "dat_keys", "%s vs %s" % (list(got.keys()), order))
        for x in order:
            ref = p[names.index(x)]
            a = np.asarray(got[x])
            ctx.check(a.shape == ref.shape, "dat_shape", "%s: %s vs %s" % (x, a.shape, ref.shape))
            ctx.close(a, ref, "dat_roundtrip_particle_assignment", rtol=1e-15, atol=0, what="particle %s (order %s, files %s)" % (x, order, [len(g) for g in groups]))
        # structured save/load
        nested = {"p": {x: got[x] for x in order}, "w": np.arange(nev, dtype=float), "l": [np.ones((nev, 2)), {"c": np.arange(nev) * 1j}], "e": {}, "t": (np.zeros(nev),)}
        save_data("nested.npy", nested)
        back = load_data("nested.npy")
        same(ctx, back, nested, "save_load_data")
    finally:
        for f in files + ["nested.npy"]:
            if os.path.exists(f):
                os.remove(f)
    return {"nontrivial": len(files) >= 2 or perm != list(range(npart)), "classes": ["files=%d" % len(files)] + sorted(set(case["fmt"][: len(files)])) + (["permuted"] if perm != list(range(npart)) else [])}


@oracle
def config_io(ctx, case):
    """ConfigLoader level: dat_order permutations, savetxt -> load, cached_data,
    lazy_call / lazy_file give the same content as eager data."""
    tf = env.tfpwa()
    from tf_pwa.data import LazyCall, data_to_numpy

    nev = case["nev"]
    mf = [0.3, 0.2, 0.5]
    M = 2.5
    rng = np.random.RandomState(case["seed"])
    p = kin.gen_three_body(M, mf, rng.uniform(0.01, 0.99, size=(nev, 5)))
    spec = {
        "top": {"J": 0, "P": -1, "mass": M},
        "finals": [{"J": 1, "P": -1, "mass": mf[0]}, {"J": 0, "P": -1, "mass": mf[1]}, {"J": 0, "P": -1, "mass": mf[2]}],
        "res": [{"pair": [0, 1], "J": 1, "P": 1, "mass": 1.0, "width": 0.1, "dopts_top": {"p_break": True}}, {"pair": [1, 2], "J": 0, "P": 1, "mass": 1.2, "width": 0.2, "dopts_top": {"p_break": True}}],
    }
    cfg, nm = cards.card3(spec)
    F = nm["finals"]
    perm = case["perm"]
    order = [F[i] for i in perm]
    fn = "ev_%d.%s" % (case["seed"] % 1000, "npy" if case["npy"] else "dat")
    block = np.stack([p[i] for i in perm]).transpose((1, 0, 2))
    if case["npy"]:
        np.save(fn, block)
    else:
        np.savetxt(fn, block.reshape(-1, 4))
    cfg["data"] = {"dat_order": order, "data": [fn]}
    try:
        config = cards.load(cfg)
        data = config.get_data("data")[0]
        for i, name in enumerate(F):
            ctx.close(np.asarray(data.get_momentum(name)), p[i], "config_dat_order", rtol=1e-15, what="momentum of %s with dat_order %s" % (name, order))
        amp = config.get_amplitude()
        cards.assign_params(amp, case["pv"])
        dens = np.asarray(amp(data))
        # savetxt -> reload reproduces the same arrays and assignment
        out = "out_%d.%s" % (case["seed"] % 1000, "npy" if case["npy2"] else "dat")
        config.data.savetxt(out, data)
        cfg2 = dict(cfg)
        cfg2["data"] = {"dat_order": order, "data": [out]}
        config2 = cards.load(cfg2)
        data2 = config2.get_data("data")[0]
        for i, name in enumerate(F):
            ctx.close(np.asarray(data2.get_momentum(name)), p[i], "config_savetxt_reload", rtol=1e-15, what="momentum of %s" % name)
        os.remove(out)
        # CalAngleData.savetxt in a different order
        out3 = "out3_%d.dat" % (case["seed"] % 1000)
        order3 = [F[i] for i in case["perm2"]]
        data.savetxt(out3, order=order3)
        from tf_pwa.data import load_dat_file

        got3 = load_dat_file(out3, order3)
        for i, name in enumerate(F):
            ctx.close(np.asarray(got3[name]), p[i], "calangledata_savetxt", rtol=1e-15, what="momentum of %s" % name)
        os.remove(out3)
        # lazy evaluation
        cfg3 = dict(cfg)
        cfg3["data"] = {"dat_order": order, "data": [fn], "lazy_call": True}
        if case["lazy_file"] and case["npy"]:
            cfg3["data"]["lazy_file"] = True
        config3 = cards.load(cfg3)
        lz = config3.get_data("data")[0]
        ctx.check(isinstance(lz, LazyCall), "lazy_type", str(type(lz)))
        ev = lz.eval()
        for i, name in enumerate(F):
            ctx.close(np.asarray(ev.get_momentum(name)), p[i], "lazy_eval_content", rtol=1e-15, what="momentum of %s" % name)
        amp3 = config3.get_amplitude()
        amp3.set_params(amp.get_params())
        b = case["lazy_batch"]
        parts = [np.asarray(amp3(x)) for x in lz.as_dataset(b)] if not isinstance(lz.as_dataset(b), LazyCall) else [np.asarray(amp3(x)) for x in lz]
        dl = np.concatenate(parts)
        ctx.close(dl, dens, "lazy_batches_equal_eager", rtol=1e-10, what="density over lazy batches (batch %d)" % b)
    finally:
        if os.path.exists(fn):
            os.remove(fn)
    return {"nontrivial": perm != [0, 1, 2], "classes": ["npy" if case["npy"] else "txt"] + (["lazy_file"] if case["lazy_file"] and case["npy"] else ["lazy_call"])}


@oracle
def lazy_objects(ctx, case):
    env.tfpwa()
    from tf_pwa.data import HeavyCall, LazyCall, LazyFile, data_map, data_merge, data_shape

    n = case["n"]
    b = batch_of(case, n)
    # dict-only input: tf.data (used by the HeavyCall path) treats python lists
    # as tensors, and the library itself only feeds dicts of arrays
    x = {"a": np.arange(n, dtype=float), "b": {"q": np.arange(2 * n, dtype=float).reshape(n, 2)}}
    f = lambda d: {"s": d["a"] * 2 + d["b"]["q"][:, 1], "k": {"a": d["a"]}}
    eager = f(x)
    for heavy in (False, True):
        lz = LazyCall(HeavyCall(f) if heavy else f, x)
        lz["weight"] = np.arange(n, dtype=float) + 0.5
        ev = lz.eval()
        same(ctx, {k: ev[k] for k in ("s", "k")}, eager, "lazy_eval")
        ctx.check(np.array_equal(np.asarray(ev["weight"]), np.arange(n) + 0.5), "lazy_extra", "weight lost")
        ctx.check(int(data_shape(lz)) == n and len(lz) == n, "lazy_len", "%s %s" % (data_shape(lz), len(lz)))
        it = lz.batch(b)
        parts = [data_map(p, np.asarray) for p in it]
        want = int(math.ceil(n / float(b)))
        ctx.check(len(parts) == want, "lazy_batch_count", "%d vs %d (heavy=%s)" % (len(parts), want, heavy))
        merged = data_merge(*parts)
        same(ctx, {k: merged[k] for k in ("s", "k")}, eager, "lazy_iter_equals_eager")
        ctx.check(np.array_equal(np.asarray(merged["weight"]), np.arange(n) + 0.5), "lazy_iter_extra", "weights differ")
    # lazy call on top of a lazy call (how the preprocessor is chained)
    g = lambda d: {"t": d["s"] + 1.0, "k2": d["k"]}
    inner = LazyCall(f, x)
    outer = LazyCall(g, inner)
    outer["weight"] = np.arange(n, dtype=float) * 3
    ev2 = outer.eval()
    same(ctx, {k: ev2[k] for k in ("t", "k2")}, g(eager), "nested_lazy_eval")
    parts = [data_map(p, np.asarray) for p in outer.batch(b)]
    ctx.check(len(parts) == int(math.ceil(n / float(b))), "nested_lazy_batch_count", "%d" % len(parts))
    merged = data_merge(*parts)
    same(ctx, {k: merged[k] for k in ("t", "k2")}, g(eager), "nested_lazy_iter_equals_eager")
    ctx.check("weight" in merged and np.array_equal(np.asarray(merged["weight"]), np.arange(n) * 3.0), "nested_lazy_iter_extra", "weight of the outer lazy object lost or changed")
    # merged lazy samples (data + bg) with an on-disk tf.data cache: each
    # sample and the merged one must keep their own content at the same batch
    import shutil

    n2 = max(1, n // 2 + 1)
    xa = {"a": np.arange(n, dtype=float), "b": {"q": np.arange(2 * n, dtype=float).reshape(n, 2)}}
    xb = {"a": 100.0 + np.arange(n2, dtype=float), "b": {"q": 50.0 + np.arange(2 * n2, dtype=float).reshape(n2, 2)}}
    cache_dir = "lazy_cache_%d_%d/" % (n, b)
    try:
        la = LazyCall(HeavyCall(f), xa)
        lb = LazyCall(HeavyCall(f), xb)
        la.set_cached_file(cache_dir, "data")
        lb.set_cached_file(cache_dir, "bg")
        pa = data_merge(*[data_map(p, np.asarray) for p in la.batch(b)])
        same(ctx, {k: pa[k] for k in ("s", "k")}, f(xa), "cached_lazy_first_sample")
        lm = data_merge(la, lb)
        ctx.check(isinstance(lm, LazyCall), "lazy_merge_type", str(type(lm)))
        ctx.check(int(data_shape(lm)) == n + n2, "lazy_merge_len", "%s" % data_shape(lm))
        pm = data_merge(*[data_map(p, np.asarray) for p in lm.batch(b)])
        want_m = f({"a": np.concatenate([xa["a"], xb["a"]]), "b": {"q": np.concatenate([xa["b"]["q"], xb["b"]["q"]])}})
        same(ctx, {k: pm[k] for k in ("s", "k")}, want_m, "cached_lazy_merged_sample")
        pb = data_merge(*[data_map(p, np.asarray) for p in lb.batch(b)])
        same(ctx, {k: pb[k] for k in ("s", "k")}, f(xb), "cached_lazy_second_sample")
    finally:
        shutil.rmtree(cache_dir, ignore_errors=True)
    fn = "lf_%d.npy" % n
    np.save(fn, np.arange(3 * n, dtype=float).reshape(n, 3))
    try:
        lf = LazyFile({"z": np.load(fn, mmap_mode="r")})
        same(ctx, data_map(lf.eval(), np.asarray), {"z": np.arange(3 * n, dtype=float).reshape(n, 3)}, "lazyfile_eval")
    finally:
        os.remove(fn)
    return {"nontrivial": n % b != 0, "classes": ["heavy+plain"]}


# ------------------------------------------------------------- strategies
leaf_st = st.fixed_dictionaries({"t": st.just("leaf"), "dims": st.lists(st.integers(1, 3), max_size=2), "complex": st.booleans(), "seed": st.integers(0, 50)})
key_st = st.sampled_from(["a", "b", "c", "p", "m", "ang"])


def container(children):
    return st.one_of(
        st.fixed_dictionaries({"t": st.just("dict"), "items": st.lists(st.tuples(key_st, children), max_size=3, unique_by=lambda t: t[0])}),
        st.fixed_dictionaries({"t": st.just("list"), "items": st.lists(children, max_size=3)}),
        st.fixed_dictionaries({"t": st.just("tuple"), "items": st.lists(children, min_size=1, max_size=3)}),
    )


spec_st = st.recursive(leaf_st, container, max_leaves=8)
top_st = st.fixed_dictionaries({"t": st.just("dict"), "items": st.lists(st.tuples(key_st, spec_st), min_size=1, max_size=4, unique_by=lambda t: t[0])})
batch_st = st.one_of(st.tuples(st.sampled_from(["n-1", "n", "n+1", "2n", "one"])), st.tuples(st.just("abs"), st.sampled_from([1, 2, 3, 5, 7, 11, 13, 17])))
split_st = st.fixed_dictionaries({"spec": top_st, "n": st.integers(1, 40), "batch": batch_st, "mask": st.one_of(st.sampled_from(["all", "none"]), st.integers(0, 1000))})
big_st = st.fixed_dictionaries({"spec": top_st, "n": st.integers(1001, 1100), "batch": st.sampled_from([("one",), ("abs", 1)]), "mask": st.integers(0, 1000)})
files_st = st.fixed_dictionaries(
    {
        "npart": st.integers(3, 5),
        "nev": st.integers(1, 30),
        "seed": st.integers(0, 10**6),
        "perm": st.lists(st.integers(0, 9), min_size=5, max_size=5),
        "cuts": st.lists(st.integers(0, 4), max_size=2),
        "fmt": st.lists(st.sampled_from(["txt", "npy", "npz"]), min_size=3, max_size=3),
    }
)
perm3 = st.permutations([0, 1, 2])
cfgio_st = st.fixed_dictionaries(
    {
        "nev": st.integers(2, 40),
        "seed": st.integers(0, 10**6),
        "perm": perm3,
        "perm2": perm3,
        "npy": st.booleans(),
        "npy2": st.booleans(),
        "lazy_file": st.booleans(),
        "lazy_batch": st.sampled_from([1, 3, 7, 50]),
        "pv": st.lists(st.floats(0, 1), min_size=8, max_size=8),
    }
)
lazy_st = st.fixed_dictionaries({"n": st.integers(1, 30), "batch": batch_st})


def run_split(ctx):
    ctx.run_cases(split_merge, split_st, ctx.n(1500, 100000))
    ctx.run_cases(split_merge, big_st, ctx.n(40, 1500), name="split_merge_large")
    ctx.run_cases(index_paths, split_st, ctx.n(300, 10000))


def run_files(ctx):
    ctx.run_cases(dat_files, files_st, ctx.n(200, 6000))
    ctx.run_cases(lazy_objects, lazy_st, ctx.n(60, 2000))


def run_config(ctx):
    ctx.run_cases(config_io, cfgio_st, ctx.n(60, 1500))


SUBCHECKS = [
    Sub("split", run_split, shards=(4, 12), budget=(200, 2400), weight=2),
    Sub("files", run_files, shards=(2, 4), budget=(200, 1800)),
    Sub("config_io", run_config, shards=(6, 8), budget=(200, 2400), weight=3),
]
