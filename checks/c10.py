"""C10 - phase-space events are physical, exactly counted and LIPS-flat."""

import itertools
import math

import numpy as np
from hypothesis import strategies as st

from vlib import env, kin
from vlib.api import Sub, oracle

RULE = (
    "kinematic cases: n = 2..6 bodies, daughter masses incl. massless / equal / one heavy (near threshold), Q-value down to 1e-4*m0, N in {1,2,17,1000,5000}, drawn seeds, "
    "flat and weighted generation, cal_max_weight on/off, nested chain structures of depth <= 3; "
    "distribution cases: n = 3..6 with N = 2e4..1e5 accepted events, every pair-mass spectrum against the recursively integrated LIPS density (Gauss-Legendre), isotropy of every particle, "
    "flat helicity cosine for n=3; KS tests at p < 1e-9/(number of tests). non-trivial = n>=3 with non-equal masses (kinematics), N>=2e4 (distributions); distinct = hash of the case"
)
ASSUMPTIONS = [
    "double precision criterion: |E^2-p^2-m^2| <= 1e-11*E^2, |sum E - m0| <= 1e-11*m0, |sum p| <= 1e-11*m0",
    "statistical clauses use Kolmogorov-Smirnov tests with per-run false-alarm probability < 1e-8; deviations below ~1.5% of the CDF are below their power at N=5e4",
    "reference LIPS density from nested 96-point Gauss-Legendre quadrature (relative accuracy ~1e-4, far below the KS resolution)",
]
TOL = 1e-11


def set_seed(seed):
    from tf_pwa.data import set_random_seed

    set_random_seed(int(seed))


def masses_of(case):
    m = [float(x) for x in case["m"]]
    if case.get("heavy_frac"):
        # one daughter carries most of the available energy: near threshold
        m[0] = m[0] + case["heavy_frac"]
    m0 = sum(m) + case["Q"]
    return m0, m


def check_events(ctx, p, m0, m, n_expected, what, tol=TOL):
    ctx.check(len(p) == len(m), "n_particles", "%s: %d arrays for %d daughters" % (what, len(p), len(m)))
    arr = [np.asarray(x) for x in p]
    for a in arr:
        ctx.check(a.shape == (n_expected, 4), "exact_count", "%s: shape %s, requested %d events" % (what, a.shape, n_expected))
        ctx.check(np.all(np.isfinite(a)), "finite", "%s: non-finite momenta" % what)
    for a, mi in zip(arr, m):
        e2 = a[:, 0] ** 2
        ctx.check(np.all(np.abs(kin.mass2(a) - mi * mi) <= tol * np.maximum(e2, m0 * m0 * 1e-6)), "mass_shell", "%s: max |E^2-p^2-m^2|/E^2 = %.3e for m=%g" % (what, float(np.max(np.abs(kin.mass2(a) - mi * mi) / e2)), mi))
        ctx.check(np.all(a[:, 0] >= mi * (1 - 1e-12)), "energy_positive", "%s" % what)
    tot = sum(arr)
    # conditioning: an event with a nearly vanishing pair mass was boosted with gamma ~ m0/m_pair, and rounding of
    # order eps*gamma is the floating-point limit of any sequential generator (matters for massless daughters only)
    if len(arr) >= 3:
        mmin = np.full(len(tot), np.inf)
        for i in range(len(arr)):
            for j in range(i + 1, len(arr)):
                mmin = np.minimum(mmin, np.sqrt(np.maximum(kin.mass2(arr[i] + arr[j]), 0.0)))
        tol = tol * np.maximum(1.0, (3e-2 * m0 / np.maximum(mmin, 1e-300)) ** 2)  # backward-emitted daughters: E'(1-beta) cancels to eps*gamma^2
        tol = np.minimum(tol, 1e-7)
    ctx.check(np.all(np.abs(tot[:, 0] - m0) <= tol * m0), "energy_conservation", "%s: max |sum E - m0|/m0 = %.3e" % (what, float(np.max(np.abs(tot[:, 0] - m0)) / m0)))
    ctx.check(np.all(np.abs(tot[:, 1:]) <= (tol[:, None] if np.ndim(tol) else tol) * m0), "momentum_conservation", "%s: max |sum p|/m0 = %.3e" % (what, float(np.max(np.abs(tot[:, 1:])) / m0)))
    return arr


def acceptance(ctx, gen):
    """Mean acceptance weight; a zero / non-finite acceptance means generate(N)
    can never return N events (it would loop forever)."""
    w = np.asarray(gen.generate(4000, flatten=False)[0])
    ok = np.all(np.isfinite(w)) and float(np.mean(w)) > 0
    ctx.check(ok, "exact_count", "acceptance weights are %s: generate(N) cannot deliver the requested number of events" % ("non-finite" if not np.all(np.isfinite(w)) else "all zero"))
    return float(np.mean(np.minimum(w, 1.0)))


@oracle
def kinematics(ctx, case):
    tf = env.tfpwa()
    from tf_pwa.phasespace import PhaseSpaceGenerator

    m0, m = masses_of(case)
    N = case["N"]
    if len(m) >= 5 and not case["cal_max"]:
        N = min(N, 300)  # acceptance ~1e-4 without the calibrated maximum weight
    set_seed(case["seed"])
    gen = PhaseSpaceGenerator(m0, m)
    if case["cal_max"] and len(m) >= 3:
        gen.cal_max_weight()
    if len(m) >= 3:
        eff = acceptance(ctx, gen)
        if eff < 2e-5:
            return {"skip": "acceptance_below_2e-5_without_calibration"}
    p = gen.generate(N)
    check_events(ctx, p, m0, m, N, "generate(%d) n=%d" % (N, len(m)))
    # weights of the un-flattened generation never exceed one
    # cal_max_weight() calibrates the bound for the default (importance
    # weighted) acceptance weight only
    imp = True if case["cal_max"] else case["importances"]
    w, pw = gen.generate(max(N, 200), flatten=False, importances=imp)
    w = np.asarray(w)
    if len(m) >= 3:
        ctx.check(w.shape == (max(N, 200),), "weight_shape", str(w.shape))
        ctx.check(np.all(w >= 0) and np.all(w <= 1 + 1e-12), "weight_not_above_one", "max weight %.6f (n=%d, importances=%s, cal_max=%s)" % (float(w.max()), len(m), imp, case["cal_max"]))
    check_events(ctx, pw, m0, m, max(N, 200), "generate(flatten=False)")
    # force=False may return fewer, never more than what was generated
    if len(m) >= 3:
        pf = gen.generate(N, force=False)
        nf = np.asarray(pf[0]).shape[0]
        ctx.check(nf <= N, "force_false_count", "%d > %d" % (nf, N))
        if nf:
            check_events(ctx, pf, m0, m, nf, "generate(force=False)")
    n = len(m)
    cls = ["n=%d" % n, "N=%d" % N]
    if min(m) == 0:
        cls.append("massless")
    if case.get("heavy_frac"):
        cls.append("heavy_daughter")
    if case["Q"] < 1e-2 * m0:
        cls.append("near_threshold")
    return {"nontrivial": n >= 3 and len(set(m)) > 1, "classes": cls}


def build_struct(spec, sfx=""):
    """spec: nested list; leaf = mass float; node = [excess, [children]]
    returns (mass, struct-for-generate_phsp, tree) where tree mirrors
    the returned momenta nesting."""
    if not isinstance(spec, list):
        return float(spec), float(spec)
    excess, kids = spec
    built = [build_struct(k) for k in kids]
    m = sum(b[0] for b in built) + excess
    return m, (m, [b[1] for b in built])


@oracle
def nested(ctx, case):
    tf = env.tfpwa()
    from tf_pwa.phasespace import generate_phsp

    m0, struct = build_struct(case["struct"])
    N = case["N"]
    set_seed(case["seed"])
    out = generate_phsp(struct[0], struct[1], N=N)

    def walk(res, st_):
        """returns total four-momentum of the node and checks masses"""
        if not isinstance(st_, tuple):
            a = np.asarray(res)
            ctx.check(a.shape == (N, 4), "exact_count", "leaf shape %s" % (a.shape,))
            e2 = a[:, 0] ** 2
            ctx.check(np.all(np.abs(kin.mass2(a) - st_ * st_) <= TOL * np.maximum(e2, 1e-6 * m0 * m0)), "mass_shell", "nested leaf m=%g: max rel %.3e" % (st_, float(np.max(np.abs(kin.mass2(a) - st_ * st_) / e2))))
            return a
        mm, kids = st_
        ctx.check(len(res) == len(kids), "nested_structure", "%d vs %d" % (len(res), len(kids)))
        tot = sum(walk(r, k) for r, k in zip(res, kids))
        ctx.check(np.all(np.abs(kin.mass2(tot) - mm * mm) <= 10 * TOL * tot[:, 0] ** 2), "fixed_intermediate_mass", "node m=%g: max |m^2 - M^2|/E^2 = %.3e" % (mm, float(np.max(np.abs(kin.mass2(tot) - mm * mm) / tot[:, 0] ** 2))))
        return tot

    tot = walk(out, struct)
    ctx.check(np.all(np.abs(tot[:, 0] - m0) <= TOL * m0), "energy_conservation", "nested: %.3e" % float(np.max(np.abs(tot[:, 0] - m0)) / m0))
    ctx.check(np.all(np.abs(tot[:, 1:]) <= TOL * m0), "momentum_conservation", "nested: %.3e" % float(np.max(np.abs(tot[:, 1:])) / m0))

    def depth(s):
        return 0 if not isinstance(s, list) else 1 + max(depth(k) for k in s[1])

    d = depth(case["struct"])
    return {"nontrivial": d >= 2, "classes": ["depth=%d" % d]}


# --------------------------------------------------------- LIPS reference
_GL = {}


def gl(n):
    if n not in _GL:
        _GL[n] = np.polynomial.legendre.leggauss(n)
    return _GL[n]


def F(M, masses, npts=64):
    """phase-space volume factor F_k(M; masses), vectorised over M, up to
    constants: F_2 = q/M, F_k = int dmu 2mu F_{k-1}(mu; m_1..m_{k-1}) q(M,mu,m_k)/M.
    The end-point square-root singularities are removed by mu = lo+(hi-lo) sin^2."""
    M = np.asarray(M, dtype=float)
    shape = M.shape
    Mf = M.reshape(-1)
    masses = list(masses)
    k = len(masses)
    if k == 2:
        return (kin.two_body_p(Mf, masses[0], masses[1]) / Mf).reshape(shape)
    lo = sum(masses[:-1])
    x, w = gl(npts)
    th = 0.25 * np.pi * (x + 1)
    s = np.sin(th) ** 2
    ds = 2 * np.sin(th) * np.cos(th) * 0.25 * np.pi
    hi = Mf - masses[-1]
    span = np.maximum(hi - lo, 0.0)
    mu = lo + span[:, None] * s[None, :]
    inner = F(mu, masses[:-1], npts=max(16, npts // 2))
    f = 2 * mu * inner * kin.two_body_p(Mf[:, None], mu, masses[-1]) / Mf[:, None]
    out = np.sum(w[None, :] * f * ds[None, :], axis=1) * span
    return out.reshape(shape)


def pair_mass_cdf(M, masses, i, j, ngrid=400):
    others = [m for k, m in enumerate(masses) if k not in (i, j)]
    lo, hi = masses[i] + masses[j], M - sum(others)
    t = np.linspace(0, 1, ngrid)
    s = np.sin(0.5 * np.pi * t) ** 2  # denser near the end points
    mg = lo + (hi - lo) * s
    q = kin.two_body_p(mg, masses[i], masses[j])
    if len(others) == 1:
        G = kin.two_body_p(M, mg, others[0]) / M
    else:
        # F_{n-1}(M; others..., m) with the variable mass last: vectorised over m
        lo2 = sum(others)
        x, w = gl(64)
        th = 0.25 * np.pi * (x + 1)
        sn = np.sin(th) ** 2
        ds = 2 * np.sin(th) * np.cos(th) * 0.25 * np.pi
        span = np.maximum(M - mg - lo2, 0.0)
        mu = lo2 + span[:, None] * sn[None, :]
        inner = F(mu, others, npts=32) if len(others) >= 2 else None
        f = 2 * mu * inner * kin.two_body_p(M, mu, mg[:, None]) / M
        G = np.sum(w[None, :] * f * ds[None, :], axis=1) * span
    rho = 2 * q * G  # 2m * (q/m) * G
    rho = np.nan_to_num(rho)
    rho[0] = 0
    rho[-1] = 0
    cdf = np.concatenate([[0], np.cumsum(0.5 * (rho[1:] + rho[:-1]) * np.diff(mg))])
    cdf /= cdf[-1]
    return mg, cdf


@oracle
def distribution(ctx, case):
    tf = env.tfpwa()
    from scipy import stats

    from tf_pwa.phasespace import PhaseSpaceGenerator

    m0, m = masses_of(case)
    N = case["N"]
    n = len(m)
    set_seed(case["seed"])
    gen = PhaseSpaceGenerator(m0, m)
    if case["cal_max"] or n >= 5:
        gen.cal_max_weight()  # n>=5: acceptance is ~1e-4 otherwise
    eff = acceptance(ctx, gen)
    if eff < 1e-3:
        return {"skip": "acceptance_below_1e-3"}
    p = [np.asarray(x) for x in gen.generate(N)]
    check_events(ctx, p, m0, m, N, "distribution sample")
    pairs = list(itertools.combinations(range(n), 2))
    if case.get("max_pairs") and len(pairs) > case["max_pairs"]:
        rs = np.random.RandomState(case["seed"] % 2**31)
        pairs = [pairs[k] for k in sorted(rs.choice(len(pairs), case["max_pairs"], replace=False))]
    ntests = len(pairs) + 2 * n + (3 if n == 3 else 0)
    alpha = 1e-9 / ntests
    worst = 1.0
    for i, j in pairs:
        mij = kin.mass(p[i] + p[j])
        mg, cdf = pair_mass_cdf(m0, m, i, j)
        u = np.interp(mij, mg, cdf)
        pv = stats.kstest(u, "uniform").pvalue
        worst = min(worst, pv)
        ctx.check(pv > alpha, "pair_mass_spectrum", "n=%d pair (%d,%d): KS p=%.3e < %.1e (masses %s, m0=%g, N=%d)" % (n, i, j, pv, alpha, m, m0, N))
    for i in range(n):
        v = p[i][:, 1:]
        r = np.linalg.norm(v, axis=1)
        ok = r > 0
        c = v[ok, 2] / r[ok]
        pv = stats.kstest((c + 1) / 2, "uniform").pvalue
        worst = min(worst, pv)
        ctx.check(pv > alpha, "isotropy_cos", "particle %d cos(theta): KS p=%.3e" % (i, pv))
        ph = (np.arctan2(v[ok, 1], v[ok, 0]) + np.pi) / (2 * np.pi)
        pv = stats.kstest(ph, "uniform").pvalue
        worst = min(worst, pv)
        ctx.check(pv > alpha, "isotropy_phi", "particle %d phi: KS p=%.3e" % (i, pv))
    if n == 3:
        for i, j in pairs:
            ptop = p[0] + p[1] + p[2]
            c = kin.helicity_cos(p[i], p[i] + p[j], ptop)
            pv = stats.kstest((c + 1) / 2, "uniform").pvalue
            worst = min(worst, pv)
            ctx.check(pv > alpha, "flat_dalitz_helicity_cos", "pair (%d,%d): KS p=%.3e" % (i, j, pv))
    return {"nontrivial": N >= 20000 and n >= 3, "classes": ["n=%d" % n], "ks_tests": ntests, "smallest_p": worst}


# ------------------------------------------------------------- strategies
dm = st.one_of(st.sampled_from([0.0, 0.139, 0.494, 0.938, 0.139, 1.0]), st.floats(0.01, 2.0))


def kin_case(n):
    return st.fixed_dictionaries(
        {
            "m": st.lists(dm, min_size=n, max_size=n),
            "Q": st.one_of(st.floats(0.05, 3.0), st.sampled_from([1e-3, 3e-4, 0.01])),
            "heavy_frac": st.one_of(st.just(0), st.just(0), st.floats(5.0, 50.0)),
            "N": st.sampled_from([1, 2, 17, 1000, 5000]),
            "seed": st.integers(0, 2**31 - 1),
            "cal_max": st.booleans(),
            "importances": st.booleans(),
        }
    )


leaf = st.one_of(st.sampled_from([0.139, 0.494, 0.938, 0.0]), st.floats(0.05, 1.0))
exc = st.floats(0.05, 1.0)
node2 = st.tuples(exc, st.lists(leaf, min_size=2, max_size=3)).map(list)
node3 = st.tuples(exc, st.lists(st.one_of(leaf, node2), min_size=2, max_size=3)).map(list)
top_struct = st.tuples(exc, st.lists(st.one_of(leaf, node2, node3), min_size=2, max_size=3)).map(list)
nested_st = st.fixed_dictionaries({"struct": top_struct, "N": st.sampled_from([1, 2, 17, 500]), "seed": st.integers(0, 2**31 - 1)})


def dist_case(n, nlist, max_pairs=0):
    return st.fixed_dictionaries(
        {
            "max_pairs": st.just(max_pairs),
            "m": st.lists(st.one_of(st.sampled_from([0.0, 0.139, 0.494, 0.938]), st.floats(0.05, 1.5)), min_size=n, max_size=n),
            "Q": st.floats(0.3, 3.0),
            "heavy_frac": st.just(0),
            "N": st.sampled_from(nlist),
            "seed": st.integers(0, 2**31 - 1),
            "cal_max": st.booleans(),
        }
    )


def run_kin(ctx):
    for n, (q, t) in {2: (16, 400), 3: (24, 600), 4: (24, 600), 5: (16, 400), 6: (16, 400)}.items():
        ctx.run_cases(kinematics, kin_case(n), ctx.n(q, t), name="kin_n%d" % n)
    ctx.run_cases(nested, nested_st, ctx.n(60, 1500))


def run_dist(ctx):
    # one body-count per shard so that the expensive cases run in parallel
    ns = [3, 4, 5, 6]
    n = ns[ctx.shard % 4]
    per = 3 if ctx.quick else 12  # Hypothesis' first example is the minimal one (all massless)
    nl = ([20000, 50000] if n <= 4 else [20000]) if ctx.quick else [50000, 100000]
    ctx.run_cases(distribution, dist_case(n, nl, 6 if ctx.quick else 0), per, name="dist_n%d_%d" % (n, ctx.shard))


SUBCHECKS = [
    Sub("kinematics", run_kin, shards=(4, 8), budget=(200, 2400)),
    Sub("distribution", run_dist, shards=(8, 16), budget=(280, 3000), weight=5),
]
