"""C17 - temporary overrides and derived computations leave the model unchanged.

Histories of override blocks / read-only computations with injected faults are
interpreted against one model; after every top-level step (whether it returns
or raises the injected fault) the snapshot of the model state and the density
of a fixed event batch must equal the snapshot taken before the step."""

import math

import numpy as np
from hypothesis import strategies as st

from vlib import cards, env, gen
from vlib.api import Sub, Violation, oracle

RULE = (
    "history = 1-8 steps on a generated 3-body model with 3-4 chains: persistent prior-state changes (restricted chain selection, non-default parameters) interleaved with "
    "override blocks {amp.temp_params, vm.temp_params, amp.mask_params, amp.temp_used_res, amp.temp_total_gls_one, temp_config} nested up to depth 3 and read-only computations "
    "{partial_weight, partial_weight_interference, fit_fractions (both methods), cal_fitfractions_no_grad, factor_iteration fully / partially consumed, build_angle_amp_matrix}; "
    "fault plan: InjectedFault raised in the block body or at the k-th density evaluation inside a computation. "
    "non-trivial = a fault was injected, or nesting depth >= 2, or the prior selection was restricted; distinct = hash of the history"
)
ASSUMPTIONS = [
    "state compared: ordered list of active chains, every parameter value, masked-parameter table, mask_factor flags of chains and decays, the overridden configuration key, and the density of a fixed batch (bit-identical)",
    "faults are injected from the harness side by wrapping DecayGroup.sum_amp of the model instance (no repository hook)",
]


class InjectedFault(Exception):
    pass


class Model:
    def __init__(self, case):
        env.tfpwa()
        spec = case["spec"]
        cfg, nm = gen.build(spec)
        self.config = cards.load(cfg)
        self.amp = self.config.get_amplitude()
        cards.assign_params(self.amp, case["pv"])
        # one bounded free parameter (as var_range in a configuration does)
        tv0 = sorted(self.amp.vm.trainable_vars)
        if tv0:
            b = tv0[case["ev_seed"] % len(tv0)]
            v = float(self.amp.get_params()[b])
            self.amp.vm.set_bound({b: (v - 1.3, v + 0.9)})
            self.bounded = b
        self.dg = self.amp.decay_group
        p = gen.events(spec, case["ev_seed"], 12)
        self.data = self.config.data.cal_angle(p4=[np.asarray(x) for x in p])
        self.calls = 0
        self.fault_at = None
        orig = self.dg.sum_amp
        me = self

        def spy(data, *a, **k):
            me.calls += 1
            if me.fault_at is not None and me.calls == me.fault_at:
                me.fault_at = None
                raise InjectedFault("fault at density evaluation %d" % me.calls)
            return orig(data, *a, **k)

        self.dg.sum_amp = spy
        self.names = sorted(self.amp.get_params().keys())
        self.tv = sorted(self.amp.vm.trainable_vars)
        from tf_pwa.config import get_config, regist_config

        try:
            regist_config("verif_tmp_key", "initial")
        except Exception:
            from tf_pwa.config import set_config

            set_config("verif_tmp_key", "initial")

    def snapshot(self):
        from tf_pwa.config import get_config

        amp = self.amp
        flags = []
        for ch in self.dg:
            flags.append(bool(getattr(ch, "mask_factor", False)))
            for d in ch:
                flags.append(bool(getattr(d, "mask_factor", False)))
        return {
            "chains_idx": list(self.dg.chains_idx),
            "params": {k: float(v) for k, v in amp.get_params().items()},
            "mask_vars": dict(amp.vm.mask_vars),
            "mask_factor": flags,
            "config": get_config("verif_tmp_key"),
        }

    def density(self):
        saved, self.fault_at = self.fault_at, None
        c = self.calls
        d = np.asarray(self.amp.pdf(self.data))
        self.calls = c
        self.fault_at = saved
        return d


def compare(ctx, before, after, d0, d1, where):
    ctx.check(sorted(after["chains_idx"]) == sorted(before["chains_idx"]), "active_chains_changed", "%s: active chains %s -> %s" % (where, before["chains_idx"], after["chains_idx"]))
    ctx.check(after["chains_idx"] == before["chains_idx"], "active_chain_order_changed", "%s: %s -> %s" % (where, before["chains_idx"], after["chains_idx"]))
    diff = {k: (before["params"][k], after["params"].get(k)) for k in before["params"] if after["params"].get(k) != before["params"][k]}
    ctx.check(not diff, "parameters_changed", "%s: %s" % (where, dict(list(diff.items())[:4])))
    ctx.check(after["mask_vars"] == before["mask_vars"], "masked_parameters_leaked", "%s: mask table %s -> %s" % (where, before["mask_vars"], after["mask_vars"]))
    ctx.check(after["mask_factor"] == before["mask_factor"], "mask_factor_leaked", "%s: %s -> %s" % (where, before["mask_factor"], after["mask_factor"]))
    ctx.check(after["config"] == before["config"], "config_override_leaked", "%s: %r -> %r" % (where, before["config"], after["config"]))
    ctx.check(np.array_equal(d0, d1), "density_changed", "%s: max |delta|/d = %.3e" % (where, float(np.max(np.abs(d0 - d1) / np.maximum(np.abs(d0), 1e-300)))))


def run_block(ctx, M, op, depth, stats):
    """op = [kind, arg, body, fault_in_body]; body = list of ops (nested) or []"""
    from tf_pwa.config import get_config, temp_config

    kind, arg, body, fault = op
    amp = M.amp
    stats["depth"] = max(stats["depth"], depth)

    def inner():
        # the override must be in effect inside the block
        if kind in ("amp_temp_params", "vm_temp_params"):
            for k, v in over.items():
                if k in amp.vm.mask_vars:
                    continue  # an enclosing mask takes precedence by design
                got = float(amp.get_params()[k])
                ctx.check(got == v, "override_in_effect", "%s: %s reads %r inside the block, expected %r" % (kind, k, got, v))
        elif kind == "mask_params":
            for k, v in over.items():
                got = float(amp.vm.read(k).numpy())
                ctx.check(abs(got - v) <= 1e-6 * (1 + abs(v)), "override_in_effect", "mask %s reads %r" % (k, got))
        elif kind == "temp_used_res":
            ctx.check(sorted(M.dg.chains_idx) == sorted(want_idx), "override_in_effect", "temp_used_res: %s vs %s" % (M.dg.chains_idx, want_idx))
        elif kind == "temp_config":
            ctx.check(get_config("verif_tmp_key") == arg, "override_in_effect", "temp_config")
        M.density()
        for sub in body:
            run_op(ctx, M, sub, depth + 1, stats)
        if fault:
            stats["faults"] += 1
            raise InjectedFault("fault in block body")

    if kind in ("amp_temp_params", "vm_temp_params", "mask_params"):
        # free AND fixed parameters (e.g. a fixed mass in a scan)
        names = M.names
        over = {names[i % len(names)]: float(v) for i, v in arg}
        if kind == "amp_temp_params":
            cm = amp.temp_params(over)
        elif kind == "vm_temp_params":
            cm = amp.vm.temp_params(over)
        else:
            cm = amp.mask_params(over)
    elif kind == "temp_used_res":
        res = list(amp.res)
        pick = sorted({i % len(res) for i in arg})
        want_idx = sorted({k for k, ch in enumerate(M.dg.chains) for r in ch.inner if any(str(r) == str(res[i]) for i in pick)})
        cm = amp.temp_used_res([res[i] for i in pick])
    elif kind == "temp_total_gls_one":
        cm = amp.temp_total_gls_one()
    elif kind == "temp_config":
        cm = temp_config("verif_tmp_key", arg)
    else:
        raise ValueError(kind)
    with cm:
        inner()


def run_compute(ctx, M, op, stats):
    kind, arg, fault_at = op
    amp = M.amp
    if fault_at:
        M.fault_at = M.calls + fault_at
        stats["fault_plans"] += 1
    try:
        if kind == "partial_weight":
            w = amp.partial_weight(M.data)
            ctx.check(len(w) == len(M.dg.chains), "partial_weight_len", "%d" % len(w))
        elif kind == "partial_weight_combine":
            n = len(M.dg.chains)
            amp.partial_weight(M.data, combine=[[i % n for i in arg], [0]])
        elif kind == "partial_weight_interference":
            amp.partial_weight_interference(M.data)
        elif kind == "fit_fractions_old":
            from tf_pwa.applications import fit_fractions

            fit_fractions(amp, M.data, batch=arg[0] % 9 + 4, method="old")
        elif kind == "fit_fractions_new":
            from tf_pwa.applications import fit_fractions

            fit_fractions(amp, M.data, batch=arg[0] % 9 + 4, method="new", res=[str(r) for r in amp.res])
        elif kind == "fit_fractions_params":
            from tf_pwa.applications import fit_fractions

            names = M.names
            fit_fractions(amp, M.data, batch=7, method="old", params={names[arg[0] % len(names)]: 0.77})
        elif kind == "no_grad":
            from tf_pwa.fitfractions import cal_fitfractions_no_grad

            cal_fitfractions_no_grad(amp, M.data, batch=6)
        elif kind == "factor_iteration":
            k = 0
            for item in amp.factor_iteration(deep=arg[0] % 3):
                M.density()
                k += 1
                if arg[1] and k >= arg[1]:
                    stats["partial_iter"] += 1
                    break
        elif kind == "angle_amp_matrix":
            from tf_pwa.experimental.build_amp import build_angle_amp_matrix

            build_angle_amp_matrix(M.dg, M.data)
        else:
            raise ValueError(kind)
    finally:
        if M.fault_at is not None:
            M.fault_at = None  # the computation needed fewer evaluations
        else:
            if fault_at:
                stats["faults"] += 1


def run_op(ctx, M, op, depth, stats):
    if op[0] in ("amp_temp_params", "vm_temp_params", "mask_params", "temp_used_res", "temp_total_gls_one", "temp_config"):
        run_block(ctx, M, op, depth, stats)
    else:
        run_compute(ctx, M, op, stats)


@oracle
def history(ctx, case):
    spec = case["spec"]
    if len(spec["chains"]) < 2:
        return {"skip": "fewer_than_two_chains"}
    M = Model(case)
    n = len(M.dg.chains)
    stats = {"depth": 0, "faults": 0, "fault_plans": 0, "partial_iter": 0}
    restricted = False
    cls = set()
    for step_i, op in enumerate(case["steps"]):
        if op[0] == "select":
            S = sorted({i % n for i in op[1]})
            M.amp.set_used_chains(S)
            restricted = restricted or len(S) < n
            continue
        if op[0] == "set_params":
            names = M.tv if M.tv else M.names
            M.amp.set_params({names[i % len(names)]: float(v) for i, v in op[1]})
            continue
        before = M.snapshot()
        d0 = M.density()
        where = "step %d %s" % (step_i, op[0])
        raised = None
        try:
            run_op(ctx, M, op, 1, stats)
        except InjectedFault as e:
            raised = e
        M.fault_at = None
        after = M.snapshot()
        d1 = M.density()
        compare(ctx, before, after, d0, d1, where + (" (ended by the injected fault)" if raised else " (ended normally)"))
        cls.add(op[0])
        if raised:
            cls.add("ended_by_fault")
    if restricted:
        cls.add("restricted_prior_selection")
    if stats["partial_iter"]:
        cls.add("partially_consumed_iteration")
    return {"nontrivial": stats["faults"] > 0 or stats["depth"] >= 2 or restricted, "classes": sorted(cls)}


# ------------------------------------------------------------- strategies
pvals = st.lists(st.tuples(st.integers(0, 30), st.floats(-2.0, 2.0)), min_size=1, max_size=3)
compute_st = st.one_of(
    st.tuples(st.sampled_from(["partial_weight", "partial_weight_interference", "no_grad", "angle_amp_matrix"]), st.just([0]), st.integers(0, 6)),
    st.tuples(st.just("partial_weight_combine"), st.lists(st.integers(0, 5), min_size=1, max_size=3), st.integers(0, 4)),
    st.tuples(st.sampled_from(["fit_fractions_old", "fit_fractions_new", "fit_fractions_params"]), st.lists(st.integers(0, 20), min_size=1, max_size=1), st.integers(0, 12)),
    st.tuples(st.just("factor_iteration"), st.tuples(st.integers(0, 2), st.integers(0, 3)), st.just(0)),
)


def block_st(children):
    body = st.lists(children, max_size=2)
    return st.one_of(
        st.tuples(st.sampled_from(["amp_temp_params", "vm_temp_params", "mask_params"]), pvals, body, st.booleans()),
        st.tuples(st.just("temp_used_res"), st.lists(st.integers(0, 8), min_size=1, max_size=2), body, st.booleans()),
        st.tuples(st.just("temp_total_gls_one"), st.none(), body, st.booleans()),
        st.tuples(st.just("temp_config"), st.sampled_from(["a", "b", 3]), body, st.booleans()),
    )


# a block kind that matters in practice: computations that use temp_params internally
# (fit_fractions) inside a masking block, as factor-wise fit fractions do
mask_then_ff = st.tuples(
    st.sampled_from(["mask_params", "amp_temp_params", "vm_temp_params"]),
    pvals,
    st.lists(st.tuples(st.sampled_from(["fit_fractions_old", "fit_fractions_new", "fit_fractions_params"]), st.lists(st.integers(0, 20), min_size=1, max_size=1), st.integers(0, 12)), min_size=1, max_size=1),
    st.booleans(),
)
op_st = st.one_of(st.recursive(compute_st, lambda ch: st.one_of(block_st(ch), compute_st), max_leaves=5), mask_then_ff)
prior_st = st.one_of(
    st.tuples(st.just("select"), st.lists(st.integers(0, 5), min_size=1, max_size=3)),
    st.tuples(st.just("set_params"), pvals),
)
def _share(spec):
    """4-body: chains with the same tree share their innermost resonance (one
    resonance then appears in several chains)."""
    spec = dict(spec)
    first = {}
    chains = []
    for ch in spec["chains"]:
        ch = dict(ch, res=dict(ch["res"]), p_break_top=True)
        keys = sorted(ch["res"], key=len)
        t = str(ch["tree"])
        if t in first and len(keys) >= 2:
            ch["res"][keys[0]] = first[t]["res"][keys[0]]
        else:
            first[t] = ch
        for k in keys[1:]:
            ch["res"][k] = dict(ch["res"][k], dopts={"p_break": True})
        chains.append(ch)
    spec["chains"] = chains
    return spec


CASCADES = [[[[0, 1], 2], 3], [[[0, 1], 2], 3], [[[0, 1], 3], 2], [[[0, 1], 2], 3]]
spec_st = st.one_of(
    gen.structure(nfinal=3, max_chains=4, min_chains=3, need_spin=True),
    gen.structure(nfinal=4, max_chains=3, min_chains=3, trees=CASCADES).map(_share),
)
case_st = st.fixed_dictionaries(
    {
        "spec": spec_st,
        "pv": st.lists(st.floats(0.05, 0.95), min_size=8, max_size=8),
        "ev_seed": st.integers(0, 2**31 - 1),
        "steps": st.lists(st.one_of(op_st, op_st, prior_st), min_size=1, max_size=8),
    }
)


def run_hist(ctx):
    ctx.run_cases(history, case_st, ctx.n(420, 8000))


SUBCHECKS = [Sub("history", run_hist, shards=(14, 16), budget=(280, 3000))]
