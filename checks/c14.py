"""C14 - decay topologies are enumerated and identified correctly."""

import itertools

from hypothesis import strategies as st

from vlib import env
from vlib.api import Sub, oracle

RULE = (
    "exhaustive enumeration of DecayChain.from_particles for n = 2..6 (quick) / 2..7 (thorough) finals with three naming schemes "
    "(distinct names, identical-particle ids 'pi:1,pi:2', mixed); all pairs (n<=5) and Hypothesis-sampled pairs (n>=6) for topology_same; "
    "random decay groups = subsets of the enumerated chains, each copied 1-3 times with renamed intermediate states. "
    "non-trivial: n>=4 for enumeration/pairs, groups with >=2 topology classes and >=2 chains in one class; distinct = hash of the case"
)
ASSUMPTIONS = [
    "reference canonical form: multiset of leaf-name sets under every internal node, computed by the harness from (core, outs) pairs only",
    "identical=True compares leaf names without ':id', identical=False with it (docstring of topology_id)",
]

SCHEMES = {
    "distinct": lambda n: ["F%d" % i for i in range(n)],
    "identical": lambda n: ["pi:%d" % (i + 1) for i in range(n)],
    "mixed": lambda n: (["pi:1", "pi:2", "K:1", "K:2", "p", "q:1", "q:2"])[:n],
}


def dfact(n):
    r = 1
    for k in range(2 * n - 3, 0, -2):
        r *= k
    return r


def build(n, scheme):
    env.plain_tfpwa()
    from tf_pwa.particle import BaseParticle, DecayChain

    top = BaseParticle("TOP")
    finals = [BaseParticle(x) for x in SCHEMES[scheme](n)]
    return top, finals, DecayChain.from_particles(top, finals)


def tree(chain):
    """children map keyed by str(particle)."""
    ch = {}
    for d in chain:
        k = str(d.core)
        assert k not in ch, "particle decays twice"
        ch[k] = [str(o) for o in d.outs]
    return ch


def leaves(ch, p, strip=False):
    if p not in ch:
        return (p.split(":")[0] if strip else p,)
    out = ()
    for c in ch[p]:
        out += leaves(ch, c, strip)
    return tuple(sorted(out))


def canon(chain, strip=False):
    ch = tree(chain)
    return tuple(sorted(leaves(ch, p, strip) for p in ch))


def validate_binary_tree(ctx, chain, top, finals):
    ch = tree(chain)
    fin = sorted(str(f) for f in finals)
    ctx.check(str(top) in ch, "tree_root", "top does not decay in %s" % chain)
    created = {}
    for k, outs in ch.items():
        ctx.check(len(outs) == 2, "binary", "%s -> %s" % (k, outs))
        for o in outs:
            created[o] = created.get(o, 0) + 1
    ctx.check(all(v == 1 for v in created.values()), "single_mother", str(created))
    ctx.check(str(top) not in created, "root_created", str(chain))
    ctx.check(list(leaves(ch, str(top))) == fin, "leaves", "%s vs %s" % (leaves(ch, str(top)), fin))
    # every decaying particle reachable from the top
    reach = set()

    def walk(p):
        reach.add(p)
        for c in ch.get(p, ()):
            walk(c)

    walk(str(top))
    ctx.check(set(ch) <= reach, "connected", str(chain))
    ctx.check(len(ch) == len(fin) - 1, "n_decays", "%d decays for %d finals" % (len(ch), len(fin)))


@oracle
def enumeration(ctx, case):
    n, scheme = case["n"], case["scheme"]
    top, finals, chains = build(n, scheme)
    ctx.check(len(chains) == dfact(n), "count", "n=%d: %d chains, expected (2n-3)!!=%d" % (n, len(chains), dfact(n)))
    forms = set()
    for c in chains:
        validate_binary_tree(ctx, c, top, finals)
        forms.add(canon(c))
    ctx.check(len(forms) == len(chains), "pairwise_different", "n=%d: %d distinct of %d" % (n, len(forms), len(chains)))
    return {"nontrivial": n >= 4, "classes": ["n=%d" % n, scheme], "chains": len(chains)}


@oracle
def table_roundtrip(ctx, case):
    """sorted_table <-> chain determine each other; standard_topology idempotent."""
    env.plain_tfpwa()
    from tf_pwa.particle import DecayChain

    n, scheme = case["n"], case["scheme"]
    top, finals, chains = build(n, scheme)
    idxs = case.get("idx")
    sel = chains if idxs is None else [chains[i % len(chains)] for i in idxs]
    for c in sel:
        ch = tree(c)
        st_ = c.sorted_table()
        lib = {str(k): tuple(sorted(str(x) for x in v)) for k, v in st_.items()}
        ref = {p: leaves(ch, p) for p in list(ch) + [str(f) for f in finals]}
        ctx.check(lib == ref, "sorted_table", "%s: lib %s ref %s" % (c, lib, ref))
        c2 = DecayChain.from_sorted_table(st_)
        ctx.check(canon(c2) == canon(c), "from_sorted_table", "%s -> %s" % (c, c2))
        ctx.check(bool(c2.topology_same(c, False)) and bool(c.topology_same(c2, False)), "from_sorted_table_same", "%s vs %s" % (c, c2))
        validate_binary_tree(ctx, c2, top, finals)
        s1 = c.standard_topology()
        s2 = s1.standard_topology()
        ctx.check(canon(s1) == canon(c), "standard_topology_same", "%s vs %s" % (s1, c))
        ctx.check(sorted(str(d) for d in s1) == sorted(str(d) for d in s2), "standard_idempotent", "%s vs %s" % (s1, s2))
    return {"nontrivial": n >= 4, "classes": ["n=%d" % n, scheme], "chains": len(sel)}


@oracle
def same_iff_canonical(ctx, case):
    n, scheme = case["n"], case["scheme"]
    top, finals, chains = build(n, scheme)
    pairs = case.get("pairs")
    if pairs is None:
        pairs = itertools.product(range(len(chains)), repeat=2)
    cf = {}
    cs = {}
    n_same = 0
    n_pairs = 0
    for i, j in pairs:
        i %= len(chains)
        j %= len(chains)
        for k in (i, j):
            if k not in cf:
                cf[k] = canon(chains[k], False)
                cs[k] = canon(chains[k], True)
        n_pairs += 1
        lib_f = bool(chains[i].topology_same(chains[j], False))
        lib_t = bool(chains[i].topology_same(chains[j], True))
        ctx.check(lib_f == (cf[i] == cf[j]), "topology_same_ids", "identical=False: lib %s, canonical %s for %s | %s" % (lib_f, cf[i] == cf[j], chains[i], chains[j]))
        ctx.check(lib_t == (cs[i] == cs[j]), "topology_same_names", "identical=True: lib %s, canonical %s for %s | %s" % (lib_t, cs[i] == cs[j], chains[i], chains[j]))
        n_same += lib_t and i != j
    return {"nontrivial": n >= 4, "classes": ["n=%d" % n, scheme] + (["has_same_by_name_pairs"] if n_same else []), "pairs": n_pairs}


def renamed_copy(chain, tag, finals_map, top):
    from tf_pwa.particle import BaseDecay, BaseParticle, DecayChain

    pm = dict(finals_map)
    pm[str(top)] = top

    def get(p):
        k = str(p)
        if k not in pm:
            pm[k] = BaseParticle("%s_%s" % (k.replace("chain", "c"), tag))
        return pm[k]

    decs = [BaseDecay(get(d.core), [get(o) for o in d.outs], disable=True) for d in chain]
    return DecayChain(decs)


@oracle
def group_partition(ctx, case):
    env.plain_tfpwa()
    from tf_pwa.particle import DecayGroup

    n, scheme = case["n"], case["scheme"]
    top, finals, chains = build(n, scheme)
    fmap = {str(f): f for f in finals}
    members = []
    for t, (i, copies) in enumerate(case["members"]):
        base = chains[i % len(chains)]
        for c in range(copies):
            members.append(renamed_copy(base, "m%dc%d" % (t, c), fmap, top))
    # drop exact duplicates (a group is a list of different chains)
    seen = set()
    uniq = []
    for m in members:
        k = tuple(sorted(str(d) for d in m))
        if k not in seen:
            seen.add(k)
            uniq.append(m)
    order = case.get("order") or []
    if order:
        uniq = [uniq[k % len(uniq)] for k in order if True][: len(uniq)] if len(set(k % len(uniq) for k in order)) == len(uniq) else uniq
    group = DecayGroup(uniq)
    identical_names = len({str(f).split(":")[0] for f in finals}) < len(finals)
    # (1) topology_structure partitions the group
    for ident in (False, True):
        reps = group.topology_structure(identical=ident, standard=False)
        keyf = lambda c: canon(c, ident)
        ref_classes = {}
        for c in uniq:
            ref_classes.setdefault(keyf(c), []).append(c)
        ctx.check(len(reps) == len(ref_classes), "structure_count", "identical=%s: %d reps, %d canonical classes" % (ident, len(reps), len(ref_classes)))
        ctx.check(len({keyf(r) for r in reps}) == len(reps), "structure_reps_distinct", str(reps))
        for c in uniq:
            hits = [r for r in reps if c.topology_same(r, ident)]
            ctx.check(len(hits) == 1, "exactly_one_class", "identical=%s: chain %s matches %d representatives" % (ident, c, len(hits)))
    # (2) get_chains_map: every chain in exactly one class, map preserves
    # the mother-daughter relation
    ref_classes = {}
    for c in uniq:
        ref_classes.setdefault(canon(c, False), []).append(c)
    maps = group.get_chains_map()
    ctx.check(len(maps) == len(ref_classes), "chains_map_classes", "%d map classes vs %d canonical" % (len(maps), len(ref_classes)))
    assigned = {}
    structs = group.topology_structure()
    ctx.check(len(structs) == len(maps), "chains_map_len", "%d vs %d" % (len(structs), len(maps)))
    for rep, cls in zip(structs, maps):
        rep_tree = tree(rep)
        for chain, pmap in cls.items():
            key = tuple(sorted(str(d) for d in chain))
            assigned[key] = assigned.get(key, 0) + 1
            ct = tree(chain)
            smap = {str(k): str(v) for k, v in pmap.items() if not hasattr(k, "outs")}
            for core, outs in rep_tree.items():
                ctx.check(core in smap, "map_total", "%s has no image in map for %s" % (core, chain))
                img = smap[core]
                ctx.check(img in ct, "map_core_decays", "image %s of %s does not decay in %s" % (img, core, chain))
                ctx.check(all(o in smap for o in outs), "map_total", "daughters of %s unmapped" % core)
                ctx.check(sorted(smap[o] for o in outs) == sorted(ct[img]), "mother_daughter_preserved", "%s->%s maps to %s->%s but chain has %s" % (core, outs, img, [smap[o] for o in outs], ct[img]))
            # leaves are mapped to leaves with the same name (same particle when ids are distinct)
            for f in finals:
                ctx.check(smap.get(str(f)) == str(f), "leaf_identity", "%s -> %s" % (f, smap.get(str(f))))
            # decay objects are mapped too
            dmap = {str(k): str(v) for k, v in pmap.items() if hasattr(k, "outs")}
            ctx.check(len(dmap) == len(rep_tree), "decay_map_total", "%d of %d decays mapped" % (len(dmap), len(rep_tree)))
    for c in uniq:
        key = tuple(sorted(str(d) for d in c))
        ctx.check(assigned.get(key, 0) == 1, "chain_in_exactly_one_map", "chain %s appears in %d classes" % (c, assigned.get(key, 0)))
    sizes = sorted(len(v) for v in ref_classes.values())
    return {
        "nontrivial": n >= 4 and len(ref_classes) >= 2 and sizes[-1] >= 2,
        "classes": ["n=%d" % n, scheme, "classes=%d" % min(len(ref_classes), 6)] + (["identical_names_multi_class"] if identical_names and len(ref_classes) >= 2 else []),
    }


# ---------------------------------------------------------------- drivers
def enum_cases(nmax):
    for n in range(2, nmax + 1):
        for scheme in SCHEMES:
            if scheme == "mixed" and n > 7:
                continue
            yield {"n": n, "scheme": scheme}


def run_enum(ctx):
    nmax = 6 if ctx.quick else 7
    ctx.run_enum(enumeration, enum_cases(nmax), name="enumeration_n<=%d" % nmax)


def run_tables(ctx):
    nmax = 5 if ctx.quick else 6
    ctx.run_enum(table_roundtrip, enum_cases(nmax), name="table_roundtrip_n<=%d" % nmax)
    big = st.fixed_dictionaries({"n": st.just(nmax + 1), "scheme": st.sampled_from(sorted(SCHEMES)), "idx": st.lists(st.integers(0, 20000), min_size=5, max_size=30)})
    ctx.run_cases(table_roundtrip, big, ctx.n(12, 300), name="table_roundtrip_sampled")


def run_pairs(ctx):
    ctx.run_enum(same_iff_canonical, enum_cases(5), name="all_pairs_n<=5")
    big = st.fixed_dictionaries(
        {
            "n": st.integers(6, 7),
            "scheme": st.sampled_from(sorted(SCHEMES)),
            "pairs": st.lists(st.tuples(st.integers(0, 20000), st.integers(0, 20000)), min_size=50, max_size=400),
        }
    )
    ctx.run_cases(same_iff_canonical, big, ctx.n(24, 400), name="sampled_pairs")


group_st = st.fixed_dictionaries(
    {
        "n": st.integers(3, 6),
        "scheme": st.sampled_from(sorted(SCHEMES)),
        "members": st.lists(st.tuples(st.integers(0, 2000), st.integers(1, 3)), min_size=1, max_size=7),
        "order": st.lists(st.integers(0, 50), max_size=12),
    }
)


def run_groups(ctx):
    ctx.run_cases(group_partition, group_st, ctx.n(400, 12000))


SUBCHECKS = [
    Sub("enumeration", run_enum, shards=(3, 6), budget=(200, 1800), weight=3),
    Sub("tables", run_tables, shards=(3, 6), budget=(200, 1800), weight=2),
    Sub("pairs", run_pairs, shards=(4, 4), budget=(200, 1800), weight=2),
    Sub("groups", run_groups, shards=(4, 8), budget=(200, 1800)),
]
