"""C08 - a returned fit result and the model state describe the same point."""

import json
import math
import os

import numpy as np
from hypothesis import strategies as st

from vlib import cards, env, gen
from vlib.api import run_pinned, Sub, Violation, oracle

RULE = (
    "history on one generated 3-body toy model (2 chains, 40-80 data / 150-250 phase-space events): constraint set drawn from {fixed, tied (var_equal), bounded two-/one-sided (var_range), Gaussian}, "
    "then 1-4 steps from {fit(method, maxiter), perturb start point, save result -> fresh model -> set_params(file), save_params -> load}; methods = every name accepted by fit "
    "(BFGS, CG, L-BFGS-B, Newton-CG, trust-ncg, trust-krylov, trust-exact, Newton-CG-p, trust-ncg-p, trust-krylov-p, iminuit, minuit); maxiter in {1, 3, 30, None}. "
    "non-trivial = a bound or tie is present, or the method is not BFGS, or the history contains >= 2 fits; distinct = hash of the history"
)
ASSUMPTIONS = [
    "convergence quality is not asserted (not part of the property); a minimiser may stop early",
    "an exception other than the documented LargeNumberError path counts as a violation ('for every minimiser the library offers by name')",
    "NLL comparisons at rtol 1e-9",
]

METHODS = ["BFGS", "CG", "L-BFGS-B", "Newton-CG", "trust-ncg", "trust-krylov", "trust-exact", "Newton-CG-p", "trust-ncg-p", "trust-krylov-p", "iminuit", "minuit"]
SLOW = set(METHODS[3:10])


class Toy:
    def __init__(self, case):
        env.tfpwa()
        self.case = case
        spec = dict(case["spec"])
        self.sfx = env.uniq()
        cfg0, nm = gen.build(spec, sfx=self.sfx)
        c0 = cards.load(cfg0)
        a0 = c0.get_amplitude()
        tv = sorted(a0.vm.trainable_vars)
        self.free0 = tv
        cons = {}
        c = case["constraints"]
        self.fixed, self.tied, self.bounds, self.gauss = {}, [], {}, {}
        used = set()

        def pick(i):
            n = tv[i % len(tv)]
            return n

        cards.assign_params(a0, case["pv"])
        start = {k: float(v) for k, v in a0.get_params().items()}
        for i, v in c["fix"]:
            n = pick(i)
            if n not in used:
                self.fixed[n] = float(v)
                used.add(n)
        for i, j in c["tie"]:
            a, b = pick(i), pick(j)
            # tie two radii or two phases (same kind), both unconstrained so far
            if a != b and a[-1] == b[-1] and a not in used and b not in used:
                self.tied.append([a, b])
                used |= {a, b}
        for i, kind, lo, hi in c["bound"]:
            n = pick(i)
            if n in used:
                continue
            v0 = start[n]
            if kind.startswith("zero"):
                # a limit of exactly 0 (magnitudes >= 0, phases in [0, x]) with the start point close to it
                v0 = start[n] = -0.1 if kind == "zero_upper" else 0.1
            rng = {"two": [v0 - lo, v0 + hi], "lower": [v0 - lo, None], "upper": [None, v0 + hi], "zero_two": [0, v0 + hi], "zero_lower": [0, None], "zero_upper": [v0 - lo, 0]}[kind]
            self.bounds[n] = rng
            used.add(n)
        for i, off, sig in c["gauss"]:
            n = pick(i)
            if n in used:
                continue
            self.gauss[n] = [start[n] + off, sig]
            used.add(n)
        if self.fixed:
            cons["fix_var"] = dict(self.fixed)
        if self.tied:
            cons["var_equal"] = [list(t) for t in self.tied]
        if self.bounds:
            cons["var_range"] = {k: list(v) for k, v in self.bounds.items()}
        if self.gauss:
            cons["gauss_constr"] = {k: list(v) for k, v in self.gauss.items()}
        spec["constrains"] = cons
        self.spec = spec
        self.start = {k: v for k, v in start.items() if k not in self.fixed}
        self.config, self.amp = self.fresh()
        nd, nph = case["n_data"], case["n_phsp"]
        if any(op[0] == "fit" and op[1] in SLOW for op in case["steps"]):
            nd, nph = min(nd, 30), min(nph, 60)  # Hessian-based minimisers: seconds per iteration
        p_d = gen.events(spec, case["seed"] + 1, nd)
        p_p = gen.events(spec, case["seed"] + 2, nph)
        self.p_d, self.p_p = p_d, p_p
        self.all_data = self.make_data(self.config)

    def fresh(self):
        cfg, nm = gen.build(self.spec, sfx=self.sfx)
        config = cards.load(cfg)
        amp = config.get_amplitude()
        st_ = dict(self.start)
        for a, b in self.tied:
            st_[b] = st_[a]
        amp.set_params(st_)
        return config, amp

    def make_data(self, config):
        d = config.data.cal_angle(p4=[np.asarray(x) for x in self.p_d])
        p = config.data.cal_angle(p4=[np.asarray(x) for x in self.p_p])
        return ([d], [p], None, None)

    def nll(self, config=None, all_data=None):
        config = config or self.config
        fcn = config.get_fcn(all_data=all_data or self.all_data)
        return float(fcn({}))


def check_constraints(ctx, toy, params, where):
    for n, v in toy.fixed.items():
        ctx.check(abs(float(params[n]) - v) <= 1e-12 * (1 + abs(v)), "fixed_unchanged", "%s: fixed %s = %r, configured %r" % (where, n, float(params[n]), v))
    for a, b in toy.tied:
        ctx.check(float(params[a]) == float(params[b]), "tied_equal", "%s: %s=%r, %s=%r" % (where, a, float(params[a]), b, float(params[b])))
    for n, (lo, hi) in toy.bounds.items():
        v = float(params[n])
        ctx.check((lo is None or v >= lo - 1e-9) and (hi is None or v <= hi + 1e-9), "bounded_inside", "%s: %s=%r outside [%s, %s]" % (where, n, v, lo, hi))


@oracle
def fit_history(ctx, case):
    from tf_pwa.fit import LargeNumberError

    toy = Toy(case)
    config, amp = toy.config, toy.amp
    nfits = 0
    cls = set()
    last = None
    steps = [list(op) for op in case["steps"]]
    if case.get("first_grad_scale", 1.0) != 1.0 and steps and steps[0][0] == "fit":
        steps[0] = steps[0][:3] + [case["first_grad_scale"]]
    for k, op in enumerate(steps):
        kind = op[0]
        where = "step %d %s" % (k, op)
        if kind == "fit":
            method, maxiter = op[1], op[2]
            gs = float(op[3]) if len(op) > 3 else 1.0
            extra = {"grad_scale": gs} if gs != 1.0 else {}
            nll0 = toy.nll()
            before = {n: float(v) for n, v in amp.get_params().items()}
            try:
                if method in SLOW:
                    res = config.fit(data=toy.all_data[0], phsp=toy.all_data[1], method=method, print_init_nll=False, **extra)
                else:
                    res = config.fit(data=toy.all_data[0], phsp=toy.all_data[1], method=method, maxiter=maxiter, print_init_nll=False, **extra)
            except LargeNumberError:
                cls.add("large_number_path")
                continue
            nfits += 1
            cls.add("method=" + method)
            if gs != 1.0:
                cls.add("grad_scale!=1")
            live = {n: float(v) for n, v in amp.get_params().items()}
            # (the minuit front end lists the free parameters only)
            ctx.check(set(res.params.keys()) <= set(live.keys()) and set(amp.vm.trainable_vars) <= set(res.params.keys()), "result_names", "%s: %s" % (where, sorted(set(res.params) ^ set(live))[:5]))
            diff = {n: (float(res.params[n]), live[n]) for n in res.params if float(res.params[n]) != live[n]}
            ctx.check(not diff, "model_holds_result_parameters", "%s: result vs live model %s" % (where, dict(list(diff.items())[:4])))
            ctx.check(not amp.vm.bnd_dic or True, "noop", "")
            nll_live = toy.nll()
            ctx.check(math.isfinite(res.min_nll), "min_nll_finite", "%s: %r" % (where, res.min_nll))
            ctx.check(abs(nll_live - res.min_nll) <= 1e-9 * max(1.0, abs(nll_live)), "min_nll_is_nll_at_result", "%s: reported minimum %.12g, NLL at the returned parameters %.12g" % (where, res.min_nll, nll_live))
            ctx.check(res.min_nll <= nll0 + 1e-9 * max(1.0, abs(nll0)), "minimum_not_above_start", "%s: start NLL %.12g, reported minimum %.12g" % (where, nll0, res.min_nll))
            check_constraints(ctx, toy, live, where)
            ctx.check(not amp.vm.pre_trans or True, "noop", "")
            last = res
        elif kind == "perturb":
            tv = sorted(amp.vm.trainable_vars)
            setp = {}
            for i, v in op[1]:
                n = tv[i % len(tv)]
                cur = float(amp.get_params()[n])
                new = cur + v
                if n in toy.bounds:
                    lo, hi = toy.bounds[n]
                    if lo is not None:
                        new = max(new, lo + 0.05)
                    if hi is not None:
                        new = min(new, hi - 0.05)
                setp[n] = new
            for a, b in toy.tied:
                if a in setp:
                    setp[b] = setp[a]
                elif b in setp:
                    setp[a] = setp[b]
            amp.set_params(setp)
            cls.add("perturb")
        elif kind == "save_load_result" and last is not None:
            fn = "result_%d.json" % k
            last.save_as(fn)
            c2, a2 = toy.fresh()
            ok = c2.set_params(fn)
            os.remove(fn)
            p2 = {n: float(v) for n, v in a2.get_params().items()}
            want = {n: float(v) for n, v in last.params.items()}
            diff = {n: (p2.get(n), want[n]) for n in want if p2.get(n) != want[n]}
            ctx.check(not diff, "reload_reproduces_parameters", "%s: (loaded, result) %s" % (where, dict(list(diff.items())[:4])))
            nll2 = toy.nll(c2, toy.make_data(c2))
            ctx.check(abs(last.min_nll - nll2) <= 1e-9 * max(1.0, abs(nll2)), "reload_reproduces_nll", "%s: reported minimum %.12g, NLL of the reloaded model %.12g" % (where, last.min_nll, nll2))
            cls.add("save_load_result")
        elif kind == "save_params":
            fn = "params_%d.json" % k
            config.save_params(fn)
            c2, a2 = toy.fresh()
            c2.set_params(fn)
            os.remove(fn)
            p2 = {n: float(v) for n, v in a2.get_params().items()}
            live = {n: float(v) for n, v in amp.get_params().items()}
            diff = {n: (p2.get(n), live[n]) for n in live if p2.get(n) != live[n]}
            ctx.check(not diff, "save_params_roundtrip", "%s: %s" % (where, dict(list(diff.items())[:4])))
            cls.add("save_params")
    constrained = bool(toy.bounds or toy.tied)
    methods = {c for c in cls if c.startswith("method=")}
    if toy.bounds:
        cls.add("bounded")
        if any(0 in (lo, hi) for lo, hi in toy.bounds.values()):
            cls.add("bound_limit_exactly_zero")
    if toy.tied:
        cls.add("tied")
    if toy.fixed:
        cls.add("fixed")
    if toy.gauss:
        cls.add("gauss")
    return {"nontrivial": nfits > 0 and (constrained or methods != {"method=BFGS"} or nfits >= 2), "classes": sorted(cls)}


small_spec = gen.structure(nfinal=3, max_chains=2, min_chains=2, spins=["0", "1/2", "0"])
cons_st = st.fixed_dictionaries(
    {
        "fix": st.lists(st.tuples(st.integers(0, 20), st.floats(0.3, 1.5)), max_size=1),
        "tie": st.lists(st.tuples(st.integers(0, 20), st.integers(0, 20)), max_size=1),
        "bound": st.lists(st.tuples(st.integers(0, 20), st.sampled_from(["two", "lower", "upper", "zero_two", "zero_lower", "zero_upper"]), st.floats(0.2, 1.5), st.floats(0.2, 1.5)), max_size=2),
        "gauss": st.lists(st.tuples(st.integers(0, 20), st.floats(-0.2, 0.2), st.floats(0.05, 0.5)), max_size=1),
    }
)


def step_st(methods):
    return st.one_of(
        st.tuples(st.just("fit"), st.sampled_from(methods), st.sampled_from([1, 3, 30, None])),
        st.tuples(st.just("fit"), st.sampled_from(methods), st.sampled_from([1, 3, 30, None]), st.sampled_from([1.0, 0.25, 4.0])),
        st.tuples(st.just("perturb"), st.lists(st.tuples(st.integers(0, 20), st.floats(-0.5, 0.5)), min_size=1, max_size=3)),
        st.tuples(st.just("save_load_result")),
        st.tuples(st.just("save_params")),
    )


def case_st(methods, max_steps=4):
    return st.fixed_dictionaries(
        {
            "spec": small_spec,
            "pv": st.lists(st.floats(0.05, 0.95), min_size=8, max_size=8),
            "constraints": cons_st,
            "n_data": st.integers(40, 80),
            "n_phsp": st.integers(150, 250),
            "seed": st.integers(0, 2**31 - 1),
            "steps": st.lists(step_st(methods), min_size=1, max_size=max_steps).map(lambda s: [("fit", methods[0], 30)] + list(s)),
            "first_grad_scale": st.sampled_from([1.0, 1.0, 0.25, 4.0]),
        }
    )


def run_methods(ctx):
    # every minimiser name once per run (one name per shard), each as the
    # first step of a short history
    m = METHODS[ctx.shard % len(METHODS)]
    ctx.run_cases(fit_history, case_st([m], max_steps=2), ctx.n(12, 120) if m not in SLOW else 1 if ctx.quick else 6, name="method_%s" % m)


def run_histories(ctx):
    fast = ["BFGS", "CG", "L-BFGS-B", "iminuit", "minuit"]
    ctx.run_cases(fit_history, case_st(fast, max_steps=4), ctx.n(16, 600), name="histories_fast")


SUBCHECKS = [
    Sub("pinned", run_pinned, shards=(1, 1), budget=(200, 600)),
    Sub("methods", run_methods, shards=(12, 12), budget=(280, 3000), weight=3),
    Sub("histories", run_histories, shards=(4, 12), budget=(280, 3000)),
]
