"""C09 - uncertainties are first-order propagated from the inverse Hessian."""

import math

import numpy as np
from hypothesis import strategies as st

from vlib import cards, env, gen, nllcase
from vlib.api import Sub, oracle

RULE = (
    "(a) value+-error arithmetic: Hypothesis-drawn operands (values away from singularities, both signs, constants of both signs) for every operator incl. ** with either or both operands uncertain, "
    "__rpow__, log, exp, apply, cal_err and random expression trees; oracle sigma = sqrt(sum (df/dx_i sigma_i)^2) with df/dx_i by central differences, error >= 0. "
    "(b) ParamsTrans: random positive-definite covariance, random differentiable expressions of the model parameters; oracle J V J^T with J by finite differences. "
    "(c) fit fractions: generated 3-body models, random positive-definite V; oracle sqrt(g V g) with the gradient of every fraction by finite differences. "
    "(d) parameter errors of generated likelihood cases vs sqrt(diag(inv(finite-difference Hessian))) where that Hessian is positive definite. (e) trans_error_matrix vs D V D. "
    "non-trivial: (a) exponent uncertain or a negative operand, (b) expression of >=2 parameters, (c) >=3 fractions, (d) >=4 free parameters; distinct = hash of the case"
)
ASSUMPTIONS = [
    "first-order propagation with uncorrelated operands for the value+-error type (operands of a binary operation are independent objects)",
    "finite-difference Jacobians with relative tolerance 1e-5",
    "non-positive-definite Hessians are outside the statement ('where the Hessian is positive definite') and are counted",
]


# ------------------------------------------------------- (a) NumberError
def build_expr(node, leaves):
    """node: nested list expression over leaf indices / constants"""
    kind = node[0]
    if kind == "x":
        return leaves[node[1] % len(leaves)]
    if kind == "c":
        return node[1]
    if kind == "neg":
        return -build_expr(node[1], leaves)
    if kind in ("log", "exp"):
        a = build_expr(node[1], leaves)
        if hasattr(a, "value"):
            return getattr(a, kind)()
        return math.log(a) if kind == "log" else math.exp(a)
    a = build_expr(node[1], leaves)
    b = build_expr(node[2], leaves)
    if kind == "+":
        return a + b
    if kind == "-":
        return a - b
    if kind == "*":
        return a * b
    if kind == "/":
        return a / b
    if kind == "**":
        return a**b
    raise ValueError(kind)


def uses_only_supported(node):
    """the type defines __add__, __sub__, __mul__, __truediv__, __pow__,
    __rpow__, __neg__ (no reflected + - * /): a float on the LEFT of those is
    outside the offered operators"""
    kind = node[0]
    if kind in ("x", "c"):
        return True
    if kind in ("neg", "log", "exp"):
        return uses_only_supported(node[1])
    ok = uses_only_supported(node[1]) and uses_only_supported(node[2])
    if kind in ("+", "-", "*", "/") and not contains_x(node[1]) and contains_x(node[2]):
        return False
    return ok


def contains_x(node):
    if node[0] == "x":
        return True
    if node[0] == "c":
        return False
    return any(contains_x(n) for n in node[1:] if isinstance(n, (list, tuple)))


def eval_float(node, xs):
    kind = node[0]
    if kind == "x":
        return xs[node[1] % len(xs)]
    if kind == "c":
        return node[1]
    if kind == "neg":
        return -eval_float(node[1], xs)
    if kind == "log":
        return math.log(eval_float(node[1], xs))
    if kind == "exp":
        return math.exp(eval_float(node[1], xs))
    a, b = eval_float(node[1], xs), eval_float(node[2], xs)
    return {"+": a + b, "-": a - b, "*": a * b, "/": a / b if b != 0 else float("nan"), "**": a**b}[kind]


def at_singular_point(node, xs):
    """an intermediate value sits on a singular point of the operator acting on it: base 0 of a power,
    argument 0 of a division (the first-order rule involves ln(0) or 1/0 there)"""
    kind = node[0]
    if kind in ("x", "c"):
        return False
    subs = [n for n in node[1:] if isinstance(n, (list, tuple))]
    if any(at_singular_point(n, xs) for n in subs):
        return True
    try:
        if kind == "**" and abs(eval_float(node[1], xs)) < 1e-6:
            return True
        if kind == "/" and abs(eval_float(node[2], xs)) < 1e-6:
            return True
        if kind == "log" and abs(eval_float(node[1], xs)) < 1e-6:
            return True
    except (ValueError, OverflowError, ZeroDivisionError, TypeError):
        return True
    return False


def leaf_uses(node, counts):
    if node[0] == "x":
        counts[node[1]] = counts.get(node[1], 0) + 1
    for n in node[1:]:
        if isinstance(n, (list, tuple)):
            leaf_uses(n, counts)


@oracle
def number_error(ctx, case):
    env.plain_tfpwa()
    from tf_pwa.err_num import NumberError, cal_err

    vals = case["vals"]
    errs = case["errs"]
    node = case["expr"]
    if not contains_x(node) or not uses_only_supported(node):
        return {"skip": "expression_outside_offered_operators"}
    # each uncertain operand may appear once (independent operands)
    counts = {}
    leaf_uses(node, counts)
    idx = {}
    flat_vals, flat_errs = [], []

    def relabel(n):
        if n[0] == "x":
            k = len(flat_vals)
            flat_vals.append(vals[n[1] % len(vals)])
            flat_errs.append(errs[n[1] % len(errs)])
            return ["x", k]
        if n[0] == "c":
            return n
        return [n[0]] + [relabel(m) if isinstance(m, (list, tuple)) else m for m in n[1:]]

    node = relabel(node)
    xs = list(flat_vals)
    try:
        v0 = eval_float(node, xs)
    except (ValueError, OverflowError, ZeroDivisionError, TypeError):
        return {"skip": "expression_undefined_at_point"}
    if not isinstance(v0, float) or not math.isfinite(v0) or abs(v0) > 1e6:
        return {"skip": "expression_undefined_at_point"}
    if at_singular_point(node, xs):
        return {"skip": "near_singularity"}
    # derivative by central differences; require a well conditioned point
    grads = []
    for i in range(len(xs)):
        h = 1e-6 * (1 + abs(xs[i]))
        try:
            xp = xs.copy()
            xm = xs.copy()
            xp[i] += h
            xm[i] -= h
            fp, fm = eval_float(node, xp), eval_float(node, xm)
            xp[i] += h
            xm[i] -= h
            fp2, fm2 = eval_float(node, xp), eval_float(node, xm)
        except (ValueError, OverflowError, ZeroDivisionError, TypeError):
            return {"skip": "near_singularity"}
        if not all(isinstance(t, float) and math.isfinite(t) for t in (fp, fm, fp2, fm2)):
            return {"skip": "near_singularity"}
        g1 = (fp - fm) / (2 * h)
        g2 = (fp2 - fm2) / (4 * h)
        if abs(g1 - g2) > 1e-5 * (1 + abs(g1)):
            return {"skip": "near_singularity"}
        grads.append((4 * g1 - g2) / 3)
    ref_err = math.sqrt(sum((g * e) ** 2 for g, e in zip(grads, flat_errs)))
    leaves = [NumberError(v, e) for v, e in zip(flat_vals, flat_errs)]
    res = build_expr(node, leaves)
    ctx.check(isinstance(res, NumberError), "result_type", str(type(res)))
    ctx.check(abs(res.value - v0) <= 1e-12 * (1 + abs(v0)), "value", "expr %s at %s: value %r, expected %r" % (node, xs, res.value, v0))
    ctx.check(res.error >= 0, "error_nonnegative", "expr %s at %s +- %s: error %r" % (node, xs, flat_errs, res.error))
    ctx.check(abs(res.error - ref_err) <= 1e-6 * (1 + abs(ref_err)), "first_order_error", "expr %s at values %s +- %s: error %r, sqrt(sum (df/dx sigma)^2) = %r" % (node, xs, flat_errs, res.error, ref_err))
    # cal_err on the same function
    f = lambda *a: eval_float(node, list(a))
    try:
        ce = cal_err(f, *leaves)
    except (ValueError, OverflowError, ZeroDivisionError, TypeError):
        ce = None  # its fixed step left the domain of the expression
    if ce is not None and isinstance(ce.error, float) and math.isfinite(ce.error):
        ctx.check(abs(ce.error - ref_err) <= 1e-4 * (1 + abs(ref_err)), "cal_err", "cal_err error %r vs %r" % (ce.error, ref_err))
    # some arguments exact (plain numbers), in every position pattern derived from the case
    mask = int(abs(flat_vals[0]) * 1e6) % (2 ** len(leaves)) if leaves else 0
    if mask:
        mixed = [v if (mask >> i) & 1 else l for i, (v, l) in enumerate(zip(flat_vals, leaves))]
        ref_mixed = math.sqrt(sum((g * e) ** 2 for i, (g, e) in enumerate(zip(grads, flat_errs)) if not (mask >> i) & 1))
        try:
            ce = cal_err(f, *mixed)
        except (ValueError, OverflowError, ZeroDivisionError, TypeError):
            ce = None
        if ce is not None and isinstance(ce.error, float) and math.isfinite(ce.error):
            ctx.check(abs(ce.error - ref_mixed) <= 1e-4 * (1 + abs(ref_mixed)), "cal_err", "cal_err with exact arguments at positions %s: error %r vs %r (expr %s at %s +- %s)" % ([i for i in range(len(leaves)) if (mask >> i) & 1], ce.error, ref_mixed, node, xs, flat_errs))
            ctx.count("cal_err_mixed_exact_arguments")

    def has(kind, n):
        return n[0] == kind or any(has(kind, m) for m in n[1:] if isinstance(m, (list, tuple)))

    def pow_uncertain_exponent(n):
        if n[0] == "**" and contains_x(n[2]):
            return True
        return any(pow_uncertain_exponent(m) for m in n[1:] if isinstance(m, (list, tuple)))

    neg = any(v < 0 for v in flat_vals) or has("neg", node)
    cls = [k for k in ("+", "-", "*", "/", "**", "log", "exp") if has(k, node)]
    if pow_uncertain_exponent(node):
        cls.append("uncertain_exponent")
    return {"nontrivial": pow_uncertain_exponent(node) or neg, "classes": cls}


@oracle
def number_error_apply(ctx, case):
    env.plain_tfpwa()
    from tf_pwa.err_num import NumberError

    v, e = case["v"], case["e"]
    funs = {"sin": (math.sin, math.cos), "sqrt": (math.sqrt, lambda x: 0.5 / math.sqrt(x)), "sq": (lambda x: x * x, lambda x: 2 * x), "inv": (lambda x: 1 / x, lambda x: -1 / x / x)}
    f, df = funs[case["fun"]]
    if case["fun"] == "sqrt":
        v = abs(v) + 0.1
    if case["fun"] == "inv" and abs(v) < 0.1:
        v = 0.5
    a = NumberError(v, e)
    r1 = a.apply(f)
    r2 = a.apply(f, df)
    want = abs(df(v)) * e
    ctx.check(abs(r2.error - want) <= 1e-12 * (1 + want), "apply_with_grad", "%r vs %r" % (r2.error, want))
    ctx.check(abs(r1.error - want) <= 1e-5 * (1 + want), "apply_numeric_grad", "%r vs %r" % (r1.error, want))
    ctx.check(r1.error >= 0 and r2.error >= 0, "error_nonnegative", "")
    return {"nontrivial": v < 0, "classes": ["apply:" + case["fun"]]}


def expr_st():
    leaf = st.one_of(st.tuples(st.just("x"), st.integers(0, 3)).map(list), st.tuples(st.just("c"), st.one_of(st.floats(0.3, 3.0), st.floats(-3.0, -0.3), st.sampled_from([2.0, -2.0, 0.5, 3.0]))).map(list))

    def ext(ch):
        return st.one_of(
            st.tuples(st.sampled_from(["+", "-", "*", "/", "**"]), ch, ch).map(list),
            st.tuples(st.sampled_from(["neg", "log", "exp"]), ch).map(list),
        )

    return st.recursive(leaf, ext, max_leaves=5)


ne_st = st.fixed_dictionaries(
    {
        "vals": st.lists(st.one_of(st.floats(0.3, 3.0), st.floats(-3.0, -0.3)), min_size=4, max_size=4),
        "errs": st.lists(st.floats(0.01, 0.5), min_size=4, max_size=4),
        "expr": expr_st(),
    }
)
# single binary operations: the unit cases of every operator, with high weight
unit_st = st.fixed_dictionaries(
    {
        "vals": st.lists(st.one_of(st.floats(0.3, 3.0), st.floats(-3.0, -0.3)), min_size=4, max_size=4),
        "errs": st.lists(st.floats(0.01, 0.5), min_size=4, max_size=4),
        "expr": st.one_of(
            st.tuples(st.sampled_from(["+", "-", "*", "/", "**"]), st.just(["x", 0]), st.just(["x", 1])).map(list),
            st.tuples(st.sampled_from(["+", "-", "*", "/", "**"]), st.just(["x", 0]), st.tuples(st.just("c"), st.one_of(st.floats(0.3, 3), st.floats(-3, -0.3), st.sampled_from([2.0, 3.0, -1.0]))).map(list)).map(list),
            st.tuples(st.just("**"), st.tuples(st.just("c"), st.floats(0.2, 4.0)).map(list), st.just(["x", 0])).map(list),
        ),
    }
)
apply_st = st.fixed_dictionaries({"v": st.one_of(st.floats(0.2, 3), st.floats(-3, -0.2)), "e": st.floats(0.01, 0.5), "fun": st.sampled_from(["sin", "sqrt", "sq", "inv"])})


# ------------------------------------------------------- (b) ParamsTrans
def random_pd(n, seed, scale=0.05):
    rng = np.random.RandomState(seed % 2**31)
    a = rng.normal(size=(n, n))
    return scale * (a @ a.T + 0.5 * np.eye(n))


@oracle
def params_trans(ctx, case):
    tf = env.tfpwa()
    from tf_pwa.params_trans import ParamsTrans
    from tf_pwa.variable import VarsManager

    vm = VarsManager()
    n = case["n"]
    names = ["p%d" % i for i in range(n)]
    for nm_, v in zip(names, case["vals"]):
        vm.add_real_var(nm_, value=v)
    V = random_pd(n, case["seed"])
    x0 = np.array(case["vals"][:n], dtype=float)

    def exprs(x):
        """a fixed family of differentiable expressions; x = list of tensors or floats"""
        m = tf.math if hasattr(x[0], "dtype") else math
        out = [x[0] * x[1 % n] + x[2 % n], x[0] / (1.5 + x[1 % n] ** 2), m.sin(x[0]) * m.exp(0.3 * x[2 % n]), x[0] ** 2 + x[1 % n] ** 2, (x[0] - x[3 % n]) * x[1 % n]]
        k = case["k"]
        return out[k % len(out)], out[(k + 1) % len(out)], out[(k + 2) % len(out)]

    pt = ParamsTrans(vm, V)
    with pt.trans() as t:
        xs = [t[nm_] for nm_ in names]
        y = exprs(xs)
        yv = tf.stack(list(y))
    err_list = pt.get_error(list(y), keep=True)
    err_vec = pt.get_error(yv, keep=True)
    err_dict = pt.get_error({"a": y[0], "b": y[1]}, keep=True)
    mat = pt.get_error_matrix(yv, keep=True)
    mat2 = pt.get_error_matrix(list(y), keep=True)
    # reference Jacobian by finite differences
    f = lambda x: np.array([float(v) for v in exprs(list(x))])
    J = np.zeros((3, n))
    for i in range(n):
        h = 1e-6 * (1 + abs(x0[i]))
        xp, xm = x0.copy(), x0.copy()
        xp[i] += h
        xm[i] -= h
        J[:, i] = (f(xp) - f(xm)) / (2 * h)
    ref = J @ V @ J.T
    sig = np.sqrt(np.diag(ref))
    ctx.close(np.array([float(e) for e in err_list]), sig, "error_of_list", rtol=1e-5, atol=1e-9, what="get_error(list)")
    ctx.close(np.asarray(err_vec), sig, "error_of_vector", rtol=1e-5, atol=1e-9, what="get_error(vector)")
    ctx.close(np.array([float(err_dict["a"]), float(err_dict["b"])]), sig[:2], "error_of_dict", rtol=1e-5, atol=1e-9, what="get_error(dict)")
    ctx.close(np.asarray(mat), ref, "error_matrix", rtol=1e-5, atol=1e-9, what="get_error_matrix(vector) vs J V J^T")
    ctx.close(np.asarray(mat2), ref, "error_matrix_list", rtol=1e-5, atol=1e-9, what="get_error_matrix(list)")
    return {"nontrivial": n >= 2, "classes": ["n=%d" % n]}


pt_st = st.fixed_dictionaries({"n": st.integers(2, 5), "vals": st.lists(st.floats(-2, 2), min_size=5, max_size=5), "seed": st.integers(0, 10**6), "k": st.integers(0, 4)})


# ------------------------------------------------------ (e) bound transform
@oracle
def trans_error_matrix(ctx, case):
    env.tfpwa()
    from tf_pwa.variable import VarsManager

    vm = VarsManager()
    n = case["n"]
    names = ["q%d" % i for i in range(n)]
    for nm_, v in zip(names, case["vals"]):
        vm.add_real_var(nm_, value=v)
    for (i, kind, lo, hi) in case["bounds"]:
        nm_ = names[i % n]
        if nm_ in vm.bnd_dic:
            continue
        v = case["vals"][i % n]
        vm.set_bound({nm_: {"two": (v - lo, v + hi), "lower": (v - lo, None), "upper": (None, v + hi)}[kind]})
    V = random_pd(n, case["seed"])
    xs = np.array(vm.get_all_val(True), dtype=float)
    got = np.asarray(vm.trans_error_matrix(V, xs))
    D = np.ones(n)
    for i, nm_ in enumerate(names):
        if nm_ in vm.bnd_dic:
            b = vm.bnd_dic[nm_]
            h = 1e-6 * (1 + abs(xs[i]))
            D[i] = (b.get_x2y(xs[i] + h) - b.get_x2y(xs[i] - h)) / (2 * h)
    ref = D[:, None] * V * D[None, :]
    ctx.close(got, ref, "trans_error_matrix", rtol=1e-5, atol=1e-10, what="V_y = D V_x D")
    return {"nontrivial": bool(vm.bnd_dic), "classes": ["bounded=%d" % len(vm.bnd_dic)]}


tem_st = st.fixed_dictionaries(
    {
        "n": st.integers(1, 4),
        "vals": st.lists(st.floats(-2, 2), min_size=4, max_size=4),
        "bounds": st.lists(st.tuples(st.integers(0, 3), st.sampled_from(["two", "lower", "upper"]), st.floats(0.2, 2.0), st.floats(0.2, 2.0)), max_size=3),
        "seed": st.integers(0, 10**6),
    }
)


# ------------------------------------------------- (c) fit-fraction errors
@oracle
def fit_fraction_errors(ctx, case):
    env.tfpwa()
    from tf_pwa.applications import fit_fractions

    spec = case["spec"]
    if len(spec["chains"]) < 2:
        return {"skip": "fewer_than_two_chains"}
    cfg, nm = gen.build(spec)
    config = cards.load(cfg)
    amp = config.get_amplitude()
    cards.assign_params(amp, case["pv"])
    p = gen.events(spec, case["seed"], case["n_ev"])
    data = config.data.cal_angle(p4=[np.asarray(x) for x in p])
    names = list(amp.vm.trainable_vars)
    n = len(names)
    if n == 0 or n > 12:
        return {"skip": "no_or_too_many_parameters"}
    V = random_pd(n, case["seed"], scale=0.01)
    res = [str(r) for r in amp.res]
    frac, err = fit_fractions(amp, data, inv_he=V, batch=case["batch"], method="old", res=res)
    ff = fit_fractions(amp, data, inv_he=V, batch=case["batch"], method="new", res=res)
    frac2, err2 = ff.get_frac(sum_diag=False)
    x0 = np.array([float(amp.vm.variables[k].numpy()) for k in names])
    keys = list(frac.keys())

    def fvec():
        fr, _ = fit_fractions(amp, data, batch=65000, method="old", res=res)
        return np.array([float(fr[k]) for k in keys])

    J = np.zeros((len(keys), n))
    for i, k in enumerate(names):
        h = 1e-5 * (1 + abs(x0[i]))
        amp.vm.variables[k].assign(x0[i] + h)
        fp = fvec()
        amp.vm.variables[k].assign(x0[i] - h)
        fm = fvec()
        amp.vm.variables[k].assign(x0[i])
        J[:, i] = (fp - fm) / (2 * h)
    ref = np.sqrt(np.einsum("ki,ij,kj->k", J, V, J))
    got = np.array([float(err[k]) for k in keys])
    got2 = np.array([float(err2[k]) for k in keys])
    ctx.close(got, ref, "fit_fraction_error", rtol=2e-4, atol=1e-8, what="fit_fractions(method=old) errors %s" % keys)
    ctx.close(got2, ref, "fit_fraction_error_new", rtol=2e-4, atol=1e-8, what="FitFractions errors %s" % keys)
    return {"nontrivial": len(keys) >= 3, "classes": ["fractions=%d" % len(keys), "npar=%d" % n]}


ff_st = st.fixed_dictionaries(
    {
        "spec": gen.structure(nfinal=3, max_chains=3, min_chains=2, spins=["0", "1/2", "0"]),
        "pv": st.lists(st.floats(0.05, 0.95), min_size=8, max_size=8),
        "seed": st.integers(0, 2**31 - 1),
        "n_ev": st.integers(30, 60),
        "batch": st.sampled_from([7, 13, 65000]),
    }
)


# ------------------------------------------------- (d) parameter errors
@oracle
def parameter_errors(ctx, case):
    nc = nllcase.NllCase(dict(case, batch=65000, gauss_fixed=False), float_shape=case["float_shape"])
    fcn, amp, vm = nc.fcn, nc.amp, nc.amp.vm
    names = list(vm.trainable_vars)
    n = len(names)
    if n == 0 or n > 10:
        return {"skip": "no_or_too_many_parameters"}
    # move to a minimum first (generator only: the errors are compared at whatever point the search stops,
    # provided the finite-difference Hessian is positive definite there)
    from tf_pwa.fit import fit_scipy

    try:
        fit_scipy(fcn, method="BFGS", maxiter=60)
    except Exception:
        return {"skip": "generator_fit_failed"}
    x0 = np.array([float(vm.variables[k].numpy()) for k in names])
    if not np.all(np.isfinite(x0)):
        return {"skip": "generator_fit_failed"}
    gvec = lambda: np.asarray(fcn.nll_grad({})[1], dtype=float)
    def fd_hessian(steps):
        Hx = np.zeros((n, n))
        for i, k in enumerate(names):
            h = steps[i]
            vm.variables[k].assign(x0[i] + h)
            gp = gvec()
            vm.variables[k].assign(x0[i] - h)
            gm = gvec()
            vm.variables[k].assign(x0[i])
            Hx[:, i] = (gp - gm) / (2 * h)
        return Hx

    steps = np.array([1e-4 * (1 + abs(v)) for v in x0])
    H1 = fd_hessian(steps)
    # steps small against the curvature scale 1/sqrt(H_ii), then Richardson extrapolation of two step sizes
    steps = np.minimum(steps, 0.02 / np.sqrt(np.maximum(np.abs(np.diag(H1)), 1e-12)))
    Ha, Hb = fd_hessian(steps), fd_hessian(steps / 2)
    H = (4 * Hb - Ha) / 3
    if np.max(np.abs(Ha - Hb)) > 1e-4 * np.max(np.abs(H)):
        return {"skip": "finite_difference_hessian_unstable"}
    H = 0.5 * (H + H.T)
    ev = np.linalg.eigvalsh(H)
    if ev.min() <= 1e-6 * max(1.0, ev.max()):
        return {"skip": "hessian_not_positive_definite"}
    ref = np.sqrt(np.diag(np.linalg.inv(H)))
    sets = nc.sets
    all_data = ([s["data"] for s in sets], [s["phsp"] for s in sets], [s["bg"] for s in sets] if any(s["bg"] is not None for s in sets) else None, None)
    cond = ev.max() / ev.min()
    Vref = np.linalg.inv(H)
    point = {k: float(v) for k, v in amp.get_params().items()}
    cls = ["model=" + nc.model, "npar=%d" % n]
    for mi, method in enumerate([None, "3-point", "hesse"]):
        # the point is either the live model state (params={}) or passed explicitly while the model holds other values
        displaced = (case["seed"] + mi) % 2 == 1
        if method == "3-point" and float(np.min(ref)) < 0.02:
            # the routine's own fixed step (5e-4) is not small against the curvature scale: its result is an approximation there
            ctx.count("3-point_step_not_small_against_error")
            continue
        if displaced:
            for i, k in enumerate(names):
                vm.variables[k].assign(x0[i] + 0.05 * (1 + (i % 3)))
            err = nc.config.get_params_error(params=dict(point), data=all_data[0], phsp=all_data[1], bg=all_data[2], batch=65000, method=method)
        else:
            err = nc.config.get_params_error(params={}, data=all_data[0], phsp=all_data[1], bg=all_data[2], batch=65000, method=method)
        got = np.array([float(err[k]) for k in names])
        loose = 30.0 if method == "3-point" else 1.0
        what = "method=%s, point %s" % (method, "passed explicitly (model displaced)" if displaced else "= model state")
        ctx.close(got, ref, "parameter_error", rtol=loose * 1e-4 * max(1.0, cond / 1e4), atol=1e-9, what="get_params_error vs sqrt(diag(inv(H_fd))) for %s (cond %.1e), %s" % (names, cond, what))
        inv = np.asarray(nc.config.inv_he)
        ctx.close(inv, Vref, "covariance_matrix", rtol=loose * 1e-3 * max(1.0, cond / 1e4), atol=loose * 1e-7 * float(np.max(np.abs(Vref))), what="inverse Hessian, " + what)
        amp.set_params(point)
        cls.append("method=%s" % method)
        cls.append("displaced" if displaced else "in_place")
    return {"nontrivial": n >= 4, "classes": cls}


def pe_st():
    small = gen.structure(nfinal=3, max_chains=2, min_chains=2, spins=["0", "1/2", "0"])
    base = nllcase.case_strategy(["default", "extended", "cfit", "simple"], nmax=(60, 10, 120), spec=small)
    return st.tuples(base, st.booleans()).map(lambda t: dict(t[0], float_shape=t[1], n_sets=1))


def run_number(ctx):
    ctx.run_cases(number_error, unit_st, ctx.n(1500, 30000), name="number_error_unit_ops")
    ctx.run_cases(number_error, ne_st, ctx.n(1500, 30000), name="number_error_trees")
    ctx.run_cases(number_error_apply, apply_st, ctx.n(300, 6000))


def run_trans(ctx):
    ctx.run_cases(params_trans, pt_st, ctx.n(80, 1600))
    ctx.run_cases(trans_error_matrix, tem_st, ctx.n(80, 1600))


def run_ff(ctx):
    ctx.run_cases(fit_fraction_errors, ff_st, ctx.n(16, 400))


def run_pe(ctx):
    ctx.run_cases(parameter_errors, pe_st(), ctx.n(32, 480))


SUBCHECKS = [
    Sub("number_error", run_number, shards=(2, 4), budget=(200, 1800)),
    Sub("params_trans", run_trans, shards=(2, 4), budget=(200, 1800)),
    Sub("fit_fraction_errors", run_ff, shards=(6, 8), budget=(280, 3000), weight=3),
    Sub("parameter_errors", run_pe, shards=(8, 8), budget=(280, 3000), weight=3),
]
