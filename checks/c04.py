"""C04 - spinless cascades reproduce the closed-form Legendre x Breit-Wigner
amplitude.  Oracle: independent numpy reference built from four-momenta."""

import itertools

import numpy as np
from hypothesis import strategies as st

from vlib import cards, kin, refmath
from vlib.api import Sub, Violation, oracle

RULE = (
    "case = spin-0 parent, three spin-0 finals (drawn masses incl. massless/equal), 1-4 resonances "
    "(pairing, orientation, J in 0..4, m0 inside the kinematic window, width, complex coupling), "
    "events = pseudo-random Dalitz points from a drawn seed + Hypothesis-drawn edge points, optional common boost; "
    "non-trivial = some resonance has J>=1 AND (>=2 interfering chains OR J>=2); distinct = hash of the drawn case"
)
ASSUMPTIONS = [
    "resonance nominal mass strictly inside (m_i+m_j, M-m_k): q0 and p0 real (the formula's B_J(q,q0) is undefined otherwise)",
    "barrier radius d = 3.0 (library default), polar couplings r*exp(i phi) as documented",
    "numpy double precision reference; relative tolerance 1e-8 on the density",
    "events within 1e-4*M of a Dalitz corner (a vanishing final-state or break-up momentum) are dropped: the four-vectors themselves carry the invariant masses only to rounding there",
]
PAIRS = [(0, 1), (0, 2), (1, 2)]
D_RADIUS = 3.0


def reference_density(M, mf, res, p4):
    """|sum_k c_k (-1)^J p^J q^J B_J(p,p0) B_J(q,q0) BW_k(m) P_J(cos th_k)|^2"""
    ptop = p4[0] + p4[1] + p4[2]
    tot = np.zeros(p4[0].shape[0], dtype=complex)
    for r in res:
        i, j = r["pair"]
        s = [x for x in range(3) if x not in (i, j)][0]
        J = r["J"]
        ppair = p4[i] + p4[j]
        m = kin.mass(ppair)
        q = kin.two_body_p(m, mf[i], mf[j])
        q0 = kin.two_body_p(r["mass"], mf[i], mf[j])
        p = kin.two_body_p(M, m, mf[s])
        p0 = kin.two_body_p(M, r["mass"], mf[s])
        cth = kin.helicity_cos(p4[i], ppair, ptop)
        amp = (
            r["c"]
            * (-1) ** J
            * p**J
            * q**J
            * refmath.bprime(J, p, p0, D_RADIUS)
            * refmath.bprime(J, q, q0, D_RADIUS)
            * (r["shape"](m) if r.get("shape") is not None else refmath.bwr(m, r["mass"], r["width"], q, q0, J, D_RADIUS))
            * refmath.legendre(J, cth)
        )
        tot = tot + amp
    return np.abs(tot) ** 2


def make_events(case, M, mf):
    rng = np.random.RandomState(case["ev_seed"] % (2**31))
    u = rng.uniform(size=(case["n_ev"], 5))
    if case.get("edge"):
        u = np.concatenate([u, np.asarray(case["edge"], dtype=float).reshape(-1, 5)], axis=0)
    # keep away from exact boundaries where the helicity angle is undefined
    u[:, 0] = np.clip(u[:, 0], 1e-6, 1 - 1e-6)
    u[:, [1, 3]] = np.clip(u[:, [1, 3]], 1e-9, 1 - 1e-9)
    p4 = kin.gen_three_body(M, mf, u)
    # conditioning: at an exact corner of the Dalitz plot a final-state momentum (or a pair's break-up momentum)
    # vanishes and the generated four-vectors themselves are only accurate to rounding (E^2-p^2 may come out
    # negative for a massless particle of energy 1e-13); such events are dropped from the comparison
    p4 = [np.asarray(p, dtype=float) for p in p4]
    ok = np.ones(len(p4[0]), dtype=bool)
    for p in p4:
        ok &= np.sqrt(np.sum(p[:, 1:] ** 2, axis=-1)) > 1e-4 * M
    for i, j in ((0, 1), (0, 2), (1, 2)):
        pp = p4[i] + p4[j]
        mij = np.sqrt(np.maximum(pp[:, 0] ** 2 - np.sum(pp[:, 1:] ** 2, axis=-1), 0.0))
        ok &= mij - (mf[i] + mf[j]) > 1e-4 * M
    if not np.all(ok) and np.sum(ok) >= 1:
        p4 = [p[ok] for p in p4]
    b = case.get("boost")
    if b:
        beta = np.asarray(b, dtype=float)
        p4 = [kin.boost(p, beta) for p in p4]
    return p4


def expand(case):
    mf = [float(x) for x in case["mf"]]
    M = sum(mf) + case["Q"]
    res = []
    for r in case["res"]:
        i, j = PAIRS[r["pair"]]
        if r.get("flip"):
            i, j = j, i
        s = [x for x in range(3) if x not in (i, j)][0]
        lo, hi = mf[i] + mf[j], M - mf[s]
        m0 = lo + (hi - lo) * r["frac"]
        res.append({"pair": [i, j], "J": r["J"], "P": (-1) ** r["J"], "mass": m0, "width": r["width"], "cr": r["cr"], "cphi": r["cphi"]})
    return M, mf, res


@oracle
def closed_form(ctx, case):
    M, mf, res = expand(case)
    spec = {
        "top": {"J": 0, "P": -1, "mass": M},
        "finals": [{"J": 0, "P": -1, "mass": m} for m in mf],
        "res": [{"pair": r["pair"], "J": r["J"], "P": r["P"], "mass": r["mass"], "width": r["width"]} for r in res],
    }
    cfg, nm = cards.card3(spec)
    config = cards.load(cfg)
    amp = config.get_amplitude()
    chains = amp.decay_group.chains
    ctx.check(len(chains) == len(res), "chain_count", "expected %d chains, got %d" % (len(res), len(chains)))
    # couplings by name
    setp = {}
    for ch in chains:
        inner = [str(x) for x in ch.inner]
        k = nm["res"].index(inner[0])
        setp[ch.total.name + "_0r"] = res[k]["cr"]
        setp[ch.total.name + "_0i"] = res[k]["cphi"]
    amp.set_params(setp)
    params = amp.get_params()
    for ch in chains:
        inner = [str(x) for x in ch.inner]
        k = nm["res"].index(inner[0])
        c = params[ch.total.name + "_0r"] * np.exp(1j * params[ch.total.name + "_0i"])
        for dec in ch:
            nls = len(dec.get_ls_list())
            ctx.check(nls == 1, "ls_count", "spinless decay %s has %d (l,s) couplings" % (dec, nls))
            g = dec.g_ls.name
            c = c * params[g + "_0r"] * np.exp(1j * params[g + "_0i"])
        res[k]["c"] = c
    p4 = make_events(case, M, mf)
    dens, _ = cards.density(config, amp, p4)
    ref = reference_density(M, mf, res, p4)
    ctx.check(np.all(np.isfinite(dens)) and np.all(dens >= 0), "finite_nonneg", "density %s" % dens[:5])
    scale = float(np.max(ref))
    ctx.close(dens, ref, "closed_form", rtol=1e-8, atol=1e-12 * scale, what="density vs reference J=%s" % [r["J"] for r in res])
    maxJ = max(r["J"] for r in res)
    return {
        "nontrivial": maxJ >= 1 and (len(res) >= 2 or maxJ >= 2),
        "classes": ["nres=%d" % len(res), "maxJ=%d" % maxJ]
        + (["massless_final"] if min(mf) == 0 else [])
        + (["equal_masses"] if len(set(mf)) < 3 else [])
        + (["boosted"] if case.get("boost") else [])
        + (["same_pair_twice"] if len({tuple(sorted(r["pair"])) for r in res}) < len(res) else []),
    }


# ------------------------------------------------------------- strategies
mass_st = st.one_of(
    st.sampled_from([0.0, 0.13957, 0.49368, 0.93827, 1.0, 0.5]),
    st.floats(0.01, 1.8),
)
res_st = st.fixed_dictionaries(
    {
        "pair": st.integers(0, 2),
        "flip": st.booleans(),
        "J": st.integers(0, 4),
        "frac": st.floats(0.08, 0.92),
        "width": st.floats(0.01, 0.6),
        "cr": st.floats(0.1, 3.0),
        "cphi": st.floats(-3.1, 3.1),
    }
)
edge_u = st.one_of(st.floats(0.0, 1.0), st.sampled_from([0.0, 1.0, 0.5, 1e-4, 1 - 1e-4]))
boost_st = st.one_of(
    st.none(),
    st.tuples(st.floats(-0.55, 0.55), st.floats(-0.55, 0.55), st.floats(-0.55, 0.55)),
)
case_st = st.fixed_dictionaries(
    {
        "mf": st.lists(mass_st, min_size=3, max_size=3),
        "Q": st.floats(0.3, 3.0),
        "res": st.lists(res_st, min_size=1, max_size=4),
        "ev_seed": st.integers(0, 2**31 - 1),
        "n_ev": st.integers(20, 120),
        "edge": st.lists(st.lists(edge_u, min_size=5, max_size=5), max_size=4),
        "boost": boost_st,
    }
)


def run_random(ctx):
    ctx.run_cases(closed_form, case_st, ctx.n(240, 6000))


def j_grid_cases(seed):
    rng = np.random.RandomState(seed)
    for Js in itertools.product(range(5), repeat=3):
        mf = [float(x) for x in rng.choice([0.0, 0.14, 0.49, 0.94, 0.3, 0.7], size=3)]
        yield {
            "mf": mf,
            "Q": float(rng.uniform(0.5, 2.5)),
            "res": [
                {"pair": k, "flip": bool(rng.randint(2)), "J": int(J), "frac": float(rng.uniform(0.15, 0.85)), "width": float(rng.uniform(0.03, 0.4)), "cr": float(rng.uniform(0.3, 2.0)), "cphi": float(rng.uniform(-3, 3))}
                for k, J in enumerate(Js)
            ],
            "ev_seed": int(rng.randint(2**31 - 1)),
            "n_ev": 40,
            "edge": [],
            "boost": None,
        }


def run_jgrid(ctx):
    # all 5^3 spin assignments of the three pairings (finite part: exhaustive
    # over J-combinations, continuous parameters drawn from the run seed)
    ctx.run_enum(closed_form, j_grid_cases(ctx.seed), name="j_grid_5x5x5")


SUBCHECKS = [
    Sub("random", run_random, shards=(10, 16), budget=(150, 2400), weight=2),
    Sub("j_grid", run_jgrid, shards=(6, 8), budget=(150, 1200)),
]
