"""C11 - kinematic transformations are mutually inverse."""

import math

import numpy as np
from hypothesis import strategies as st

from vlib import env, kin
from vlib.api import Sub, oracle

RULE = (
    "vectors: Hypothesis-drawn four-vectors (time-like from mass+momentum, light-like, generic) and velocities |v| from 0 (incl. the epsilon branch) to 1-1e-6, batches of 1-6; "
    "chains: every binary-tree shape for 3, 4 and 5 final particles (enumerated, with drawn daughter orientation), masses drawn bottom-up inside the allowed ranges, "
    "cos(theta) in (-1,1), phi in (-pi,pi), 1-4 events; Dalitz points constructed from physical three-body events. "
    "non-trivial = |v|>0.5 for vectors, >=4 finals or a decaying second daughter for chains; distinct = hash of the drawn case"
)
ASSUMPTIONS = [
    "boost round-trip tolerance scales with gamma^2 (conditioning of the Lorentz boost in floating point)",
    "azimuthal angles are compared as exp(i phi) (phi is defined modulo 2 pi)",
    "reference boosts, masses and helicity cosines are the harness's numpy code (vlib/kin.py)",
    "four-vector components are exactly 0 or at least 1e-8 in magnitude (squares of denormal-scale components underflow)",
]


# ------------------------------------------------------------ four-vectors
def _vec_from(case):
    out = []
    for v in case["vectors"]:
        kind, a, px, py, pz = v
        p2 = px * px + py * py + pz * pz
        if kind == "massive":
            e = math.sqrt(a * a + p2)
        elif kind == "light":
            e = math.sqrt(p2)
        else:  # generic (possibly space-like): energy given directly
            e = a
        out.append([e, px, py, pz])
    return np.array(out, dtype=float)


def _beta(case):
    n = np.array(case["dir"], dtype=float)
    nn = np.linalg.norm(n)
    if nn < 1e-12:
        n = np.array([0.0, 0.0, 1.0])
        nn = 1.0
    return n / nn * case["speed"]


@oracle
def vector_laws(ctx, case):
    tf = env.tfpwa()
    from tf_pwa.angle import LorentzVector as lv

    p = _vec_from(case)
    if np.any((p != 0) & (np.abs(p) < 1e-8)):
        return {"skip": "component_below_physical_scale"}
    beta = _beta(case)
    speed = float(np.linalg.norm(beta))
    gamma = 1.0 / math.sqrt(1 - speed * speed)
    P = tf.constant(p)
    B = tf.constant(np.broadcast_to(beta, (p.shape[0], 3)).copy())
    scale = np.max(np.abs(p), axis=-1, keepdims=True) + 1e-300
    fwd = np.asarray(lv.boost(P, B))
    ref = kin.boost(p, beta)
    ctx.close(fwd / scale, ref / scale, "boost_value", rtol=0, atol=1e-12 * gamma**2, what="boost vs reference (|v|=%.9g)" % speed)
    back = np.asarray(lv.boost(tf.constant(fwd), -B))
    ctx.close(back / scale, p / scale, "boost_roundtrip", rtol=0, atol=4e-13 * gamma**4, what="boost(boost(p,v),-v) (|v|=%.9g)" % speed)
    # invariants
    m2 = np.asarray(lv.M2(P))
    ctx.close(m2, kin.mass2(p), "M2_value", rtol=1e-12, atol=1e-12 * scale[:, 0] ** 2, what="M2")
    m2b = np.asarray(lv.M2(tf.constant(fwd)))
    ctx.close(m2b / scale[:, 0] ** 2, m2 / scale[:, 0] ** 2, "mass_invariant_under_boost", rtol=0, atol=1e-11 * gamma**2, what="M2 after boost")
    # sqrt amplifies rounding noise of m^2 near the light cone: M is compared
    # where |m^2| is well above the rounding level of E^2
    sf = np.max(np.abs(fwd), axis=-1)
    okm = np.abs(kin.mass2(fwd)) > 1e-6 * sf**2
    if okm.any():
        mb = np.asarray(lv.M(tf.constant(fwd[okm])))
        ctx.close(mb, np.sqrt(np.abs(kin.mass2(fwd[okm]))), "M_value", rtol=1e-9, atol=0, what="M")
    if p.shape[0] >= 2:
        d0 = np.asarray(lv.Dot(P[:-1], P[1:]))
        d1 = np.asarray(lv.Dot(tf.constant(fwd[:-1]), tf.constant(fwd[1:])))
        s2 = scale[:-1, 0] * scale[1:, 0]
        ctx.close(d0, kin.mdot(p[:-1], p[1:]), "Dot_value", rtol=1e-12, atol=1e-13 * s2, what="Dot")
        ctx.close(d1 / s2, d0 / s2, "dot_invariant_under_boost", rtol=0, atol=1e-11 * gamma**2, what="Dot after boost")
    # rotations (harness rotation, library invariants)
    R = kin.euler_matrix(*case["euler"])
    pr = kin.rotate(p, R)
    ctx.close(np.asarray(lv.M2(tf.constant(pr))) / scale[:, 0] ** 2, m2 / scale[:, 0] ** 2, "mass_invariant_under_rotation", rtol=0, atol=1e-12, what="M2 after rotation")
    if p.shape[0] >= 2:
        d2 = np.asarray(lv.Dot(tf.constant(pr[:-1]), tf.constant(pr[1:])))
        ctx.close(d2 / s2, d0 / s2, "dot_invariant_under_rotation", rtol=0, atol=1e-12, what="Dot after rotation")
    # boost commutes with rotation of both arguments
    rb = np.asarray(lv.boost(tf.constant(pr), tf.constant(np.broadcast_to(R @ beta, (p.shape[0], 3)).copy())))
    ctx.close(rb / scale, kin.rotate(fwd, R) / scale, "boost_rotation_covariance", rtol=0, atol=1e-12 * gamma**2, what="R boost(p,v) = boost(Rp,Rv)")
    # boost matrix of a time-like vector agrees with the vector boost
    tl = kin.mass2(p) > 1e-6 * scale[:, 0] ** 2
    tl &= p[:, 0] > 0
    n_tl = int(tl.sum())
    if n_tl:
        q = p[tl]
        other = np.roll(p, 1, axis=0)[tl]
        mat = np.asarray(lv.boost_matrix(tf.constant(q)))
        bv = np.asarray(lv.boost_vector(tf.constant(q)))
        ctx.close(bv, q[:, 1:] / q[:, 0:1], "boost_vector", rtol=1e-14, atol=1e-15, what="boost_vector")
        via_mat = np.einsum("nij,nj->ni", mat, other)
        via_vec = np.asarray(lv.boost(tf.constant(other), tf.constant(bv)))
        g = q[:, 0] / np.sqrt(kin.mass2(q))
        so = np.max(np.abs(other), axis=-1, keepdims=True) + 1e-300
        ctx.close(via_mat / so, via_vec / so, "boost_matrix_vs_boost", rtol=0, atol=1e-12 * float(np.max(g)) ** 2, what="boost_matrix(p).q vs boost(q, beta(p))")
        # a particle boosted into its own rest frame is (m, 0, 0, 0)
        rest = np.asarray(lv.rest_vector(tf.constant(q), tf.constant(q)))
        mq = np.sqrt(kin.mass2(q))
        want = np.zeros_like(q)
        want[:, 0] = mq
        ctx.close(rest / q[:, 0:1], want / q[:, 0:1], "rest_vector_self", rtol=0, atol=1e-12 * float(np.max(g)) ** 2, what="rest_vector(p,p)")
        gam = np.asarray(lv.gamma(tf.constant(q)))
        ctx.close(gam, g, "gamma_value", rtol=1e-9 * float(np.max(g)) ** 2, atol=0, what="gamma")
    cls = []
    if speed > 0.5:
        cls.append("|v|>0.5")
    if speed > 0.999:
        cls.append("|v|>0.999")
    if speed * speed < 1e-10:
        cls.append("epsilon_branch")
    kinds = {v[0] for v in case["vectors"]}
    cls += sorted(kinds)
    return {"nontrivial": speed > 0.5, "classes": cls}


# components are exactly 0 or of a physical scale (squares of 1e-153 underflow; not a kinematic statement)
comp = st.floats(-5, 5).map(lambda x: 0.0 if abs(x) < 1e-8 else x)
vec_st = st.one_of(
    st.tuples(st.just("massive"), st.floats(0.01, 5.0), comp, comp, comp),
    st.tuples(st.just("light"), st.just(0.0), comp, comp, comp.filter(lambda x: abs(x) > 1e-3)),
    st.tuples(st.just("generic"), comp, comp, comp, comp),
)
speed_st = st.one_of(
    st.floats(0.0, 0.999),
    st.sampled_from([0.0, 1e-9, 1e-6, 3e-6, 1e-5, 0.5, 0.9, 0.99, 0.999, 0.9999, 0.999999]),
)
vcase_st = st.fixed_dictionaries(
    {
        "vectors": st.lists(vec_st, min_size=1, max_size=6),
        "dir": st.tuples(st.floats(-1, 1), st.floats(-1, 1), st.floats(-1, 1)),
        "speed": speed_st,
        "euler": st.tuples(st.floats(-math.pi, math.pi), st.floats(0, math.pi), st.floats(-math.pi, math.pi)),
    }
)


# ------------------------------------------------------------------ chains
def tree_shapes(n):
    """All binary-tree shapes over leaves 0..n-1 as nested tuples."""
    env.plain_tfpwa()
    from tf_pwa.particle import BaseParticle, DecayChain

    top = BaseParticle("T")
    fin = [BaseParticle("f%d" % i) for i in range(n)]
    out = []
    for ch in DecayChain.from_particles(top, fin):
        cm = {str(d.core): [str(o) for o in d.outs] for d in ch}

        def nest(p):
            if p not in cm:
                return int(p[1:])
            return tuple(nest(c) for c in cm[p])

        out.append(nest("T"))
    return out


_SHAPES = {}


def shapes(n):
    if n not in _SHAPES:
        _SHAPES[n] = tree_shapes(n)
    return _SHAPES[n]


def build_chain(case):
    """Build amp particles/decays for the drawn shape with drawn orientation
    and masses.  Returns chain, list of decays (depth-first, node first),
    mass dict by particle name."""
    env.tfpwa()
    from tf_pwa.amp import DecayChain, get_decay, get_particle

    n = case["n"]
    shape = shapes(n)[case["shape"] % len(shapes(n))]
    sfx = env.uniq()
    flips = list(case["flips"])
    excess = list(case["excess"])
    fm = case["final_masses"]
    particles = {}
    decays = []
    masses = {}
    counter = [0]

    def make(node, is_top=False):
        if isinstance(node, int):
            name = "f%d%s" % (node, sfx)
            m = fm[node]
            p = get_particle(name, J=0, P=-1, mass=m)
            particles[name] = p
            masses[name] = m
            return p, m
        kids = list(node)
        k = counter[0]
        counter[0] += 1
        if flips[k % len(flips)]:
            kids = kids[::-1]
        made = [make(c) for c in kids]
        m = sum(x[1] for x in made) + excess[k % len(excess)]
        name = ("T%s" % sfx) if is_top else "r%d%s" % (k, sfx)
        p = get_particle(name, J=0, P=-1, mass=m)
        particles[name] = p
        masses[name] = m
        decays.append((p, [x[0] for x in made]))
        return p, m

    make(shape, True)
    decs = [get_decay(core, outs) for core, outs in decays]
    chain = DecayChain(decs)
    return chain, masses, shape


@oracle
def chain_roundtrip(ctx, case):
    tf = env.tfpwa()
    from tf_pwa.data_trans.helicity_angle import HelicityAngle

    chain, masses, shape = build_chain(case)
    ha = HelicityAngle(chain)
    nev = case["nev"]
    decs = list(chain)
    nd = len(decs)
    cos_in = [np.array([case["cos"][(j * nev + e) % len(case["cos"])] for e in range(nev)]) for j in range(nd)]
    phi_in = [np.array([case["phi"][(j * nev + e) % len(case["phi"])] for e in range(nev)]) for j in range(nd)]
    ms = {}
    for d in decs:
        for p in [d.core] + list(d.outs):
            ms[p] = tf.constant(np.full(nev, masses[str(p)]), dtype=tf.float64)
    p4 = ha.build_data(ms, [tf.constant(c) for c in cos_in], [tf.constant(f) for f in phi_in])
    finals = [p for p in p4]
    arr = {str(p): np.asarray(v) for p, v in p4.items()}
    M = masses[str(chain.top)]
    # physical validity of the built momenta (independent of the inverse map)
    tot = sum(arr.values())
    ctx.close(tot[:, 0], np.full(nev, M), "built_energy_sum", rtol=1e-12, what="sum E")
    ctx.close(tot[:, 1:], np.zeros((nev, 3)), "built_momentum_sum", rtol=0, atol=1e-12 * M, what="sum p")
    for name, v in arr.items():
        ctx.close(kin.mass2(v), np.full(nev, masses[name] ** 2), "built_mass_shell", rtol=0, atol=1e-11 * M * M, what="mass shell of %s" % name)

    # sub-system four-momenta by harness
    def leaves_of(p):
        d = [x for x in decs if x.core == p]
        if not d:
            return [str(p)]
        out = []
        for o in d[0].outs:
            out += leaves_of(o)
        return out

    p_of = {}
    for d in decs:
        for p in [d.core] + list(d.outs):
            p_of[str(p)] = sum(arr[x] for x in leaves_of(p))
    for d in decs:
        ctx.close(kin.mass(p_of[str(d.core)]), np.full(nev, masses[str(d.core)]), "built_intermediate_mass", rtol=0, atol=1e-10 * M, what="mass of %s" % d.core)
    # helicity cosine by harness: angle of outs[0] in the core rest frame w.r.t.
    # the core's flight direction in ITS mother's rest frame
    mother = {}
    for d in decs:
        for o in d.outs:
            mother[str(o)] = str(d.core)
    for j, d in enumerate(decs):
        core = str(d.core)
        if core not in mother:
            continue  # top decay: direction defined w.r.t. lab z axis
        gm = mother[core]
        cth = kin.helicity_cos(p_of[str(d.outs[0])], p_of[core], p_of[gm])
        ctx.close(cth, cos_in[j], "built_helicity_cos", rtol=0, atol=1e-9, what="independent cos(theta) of %s" % d)
    # top decay: cos and phi w.r.t. lab axes
    jtop = [j for j, d in enumerate(decs) if str(d.core) == str(chain.top)][0]
    v = p_of[str(decs[jtop].outs[0])][:, 1:]
    ctx.close(v[:, 2] / np.linalg.norm(v, axis=1), cos_in[jtop], "built_top_cos", rtol=0, atol=1e-10, what="top decay cos")
    s_in = np.sqrt(1 - cos_in[jtop] ** 2)
    ok = s_in > 1e-6
    if ok.any():
        ph = np.arctan2(v[:, 1], v[:, 0])
        ctx.close(np.exp(1j * ph[ok]), np.exp(1j * phi_in[jtop][ok]), "built_top_phi", rtol=0, atol=1e-8, what="top decay phi")
    # inverse map
    data = ha.cal_angle(p4)
    ms2, cos2, phi2 = ha.find_variable(data)
    for p, v in ms2.items():
        # compared as m^2: sqrt of a rounding-level m^2 (massless finals) is ~1e-8
        ctx.close(np.asarray(v) ** 2, np.full(nev, masses[str(p)] ** 2), "roundtrip_mass", rtol=0, atol=1e-10 * M * M, what="mass^2 of %s" % p)
    ctx.check(len(ms2) == len(ms), "roundtrip_mass_keys", "%d vs %d" % (len(ms2), len(ms)))
    for j in range(nd):
        c2 = np.asarray(cos2[j])
        ctx.close(c2, cos_in[j], "roundtrip_cos", rtol=0, atol=2e-9, what="cos(theta) of decay %s (shape %s)" % (decs[j], shape))
        s = np.sqrt(1 - cos_in[j] ** 2)
        ok = s > 1e-5
        if ok.any():
            f2 = np.asarray(phi2[j])
            err = np.abs(np.exp(1j * f2[ok]) - np.exp(1j * phi_in[j][ok]))
            ctx.check(np.all(err < 1e-6 / s[ok]), "roundtrip_phi", "phi of decay %s (shape %s): got %s want %s" % (decs[j], shape, f2[ok], phi_in[j][ok]))
    second_decays = any(any(x.core == d.outs[1] for x in decs) for d in decs)
    branching = any(all(any(x.core == o for x in decs) for o in d.outs) for d in decs)
    n = case["n"]
    return {
        "nontrivial": n >= 4 or second_decays,
        "classes": ["n=%d" % n, "branching" if branching else "sequential"] + (["second_daughter_decays"] if second_decays else []),
    }


ang_cos = st.one_of(st.floats(-0.999, 0.999), st.sampled_from([0.0, 0.5, -0.5, 0.99, -0.99]))
ang_phi = st.one_of(st.floats(-3.14, 3.14), st.sampled_from([0.0, 1.5707963, -1.5707963, 3.0, -3.0]))


def chain_case_st(n):
    return st.fixed_dictionaries(
        {
            "n": st.just(n),
            "shape": st.integers(0, 200),
            "flips": st.lists(st.booleans(), min_size=6, max_size=6),
            "excess": st.lists(st.floats(0.02, 1.5), min_size=6, max_size=6),
            "final_masses": st.lists(st.one_of(st.floats(0.05, 1.0), st.sampled_from([0.0, 0.139, 0.494, 0.938])), min_size=n, max_size=n),
            "nev": st.integers(1, 4),
            "cos": st.lists(ang_cos, min_size=4, max_size=16),
            "phi": st.lists(ang_phi, min_size=4, max_size=16),
        }
    )


# ------------------------------------------------------------------ Dalitz
@oracle
def dalitz_roundtrip(ctx, case):
    tf = env.tfpwa()
    from tf_pwa.data_trans.dalitz import Dalitz

    m = case["m"]
    M = sum(m) + case["Q"]
    u = np.asarray(case["u"], dtype=float).reshape(-1, 5)
    u[:, 0] = np.clip(u[:, 0], 1e-4, 1 - 1e-4)
    u[:, 3] = np.clip(u[:, 3], 1e-4, 1 - 1e-4)
    p = kin.gen_three_body(M, m, u)
    # exactly collinear events lie ON the boundary of the Dalitz region, where
    # rounding decides the sign under the square root: not asserted
    a, b = p[0][:, 1:], p[1][:, 1:]
    perp = np.linalg.norm(np.cross(a, b), axis=1) / (np.linalg.norm(a, axis=1) + 1e-300)
    keep = perp > 1e-4 * M
    if not keep.any():
        return {"skip": "all_events_collinear"}
    p = [x[keep] for x in p]
    s12 = kin.mass2(p[0] + p[1])
    s23 = kin.mass2(p[1] + p[2])
    d = Dalitz(M, *m)
    q = [np.asarray(x) for x in d.generate_p(tf.constant(s12), tf.constant(s23))]
    ctx.check(all(np.all(np.isfinite(x)) for x in q), "dalitz_finite", "nan inside the physical region: s12=%s s23=%s" % (s12[:3], s23[:3]))
    for i in range(3):
        ctx.close(kin.mass2(q[i]), np.full(len(s12), m[i] ** 2), "dalitz_mass_shell", rtol=0, atol=1e-9 * M * M, what="particle %d" % i)
    tot = q[0] + q[1] + q[2]
    ctx.close(tot[:, 0], np.full(len(s12), M), "dalitz_energy", rtol=1e-10, what="sum E")
    ctx.close(tot[:, 1:], 0 * tot[:, 1:], "dalitz_at_rest", rtol=0, atol=1e-9 * M, what="sum p")
    ctx.close(kin.mass2(q[0] + q[1]), s12, "dalitz_s12", rtol=1e-8, atol=1e-10 * M * M, what="s12")
    ctx.close(kin.mass2(q[1] + q[2]), s23, "dalitz_s23", rtol=1e-8, atol=1e-10 * M * M, what="s23")
    return {"nontrivial": len(set(m)) > 1, "classes": ["massless"] if min(m) == 0 else []}


dalitz_st = st.fixed_dictionaries(
    {
        "m": st.lists(st.one_of(st.floats(0.05, 1.2), st.sampled_from([0.139, 0.494, 0.938])), min_size=3, max_size=3),
        "Q": st.floats(0.1, 3.0),
        "u": st.lists(st.floats(0.01, 0.99), min_size=10, max_size=50).map(lambda l: l[: 5 * (len(l) // 5)]),
    }
)


def run_vectors(ctx):
    ctx.run_cases(vector_laws, vcase_st, ctx.n(5000, 200000))


def run_chains(ctx):
    for n, (q, t) in {3: (150, 4000), 4: (400, 10000), 5: (400, 12000)}.items():
        ctx.run_cases(chain_roundtrip, chain_case_st(n), ctx.n(q, t), name="chain_n%d" % n)


def run_dalitz(ctx):
    ctx.run_cases(dalitz_roundtrip, dalitz_st, ctx.n(600, 20000))


SUBCHECKS = [
    Sub("vectors", run_vectors, shards=(4, 8), budget=(200, 2400)),
    Sub("chains", run_chains, shards=(10, 16), budget=(220, 3000), weight=3),
    Sub("dalitz", run_dalitz, shards=(2, 4), budget=(200, 1200)),
]
