"""C05 - every evaluation strategy returns the same density and likelihood;
the custom tensor contraction returns the reference contraction or declines."""

import json
import math

import numpy as np
from hypothesis import strategies as st

from vlib import cards, env, gen, nllcase
from vlib.api import Sub, Violation, oracle

RULE = (
    "(i) generated 3-body structures (<=3 chains, spins) evaluated under every strategy selectable in the data section {cached_amp (+no_p4/no_angle), cached_shape, base_factor (+cached_angle), "
    "p4_directly, use_tf_function (+no_id_cached), jit_compile [thorough], lazy_call} against plain eager evaluation: first call, second call on the same data object, and after a change of the couplings; "
    "every contraction the amplitude builder emits while doing so is captured and compared with numpy.einsum; cached-integral / cached-amplitude likelihoods against the default NLL and gradient. "
    "(ii) synthetic contraction programs: 1-6 operands, labels with sizes 1-4 (size-1/size-n mixing), optional '...' batch prefix, arbitrary output sub-multiset, against numpy.einsum. "
    "non-trivial: (i) strategy differs from default and >=2 chains with spin; (ii) >=3 operands with a summed label shared by >=2 operands and a size-1 label or >=2 summed labels; distinct = hash of the case"
)
ASSUMPTIONS = [
    "the contraction routine may decline by raising (callers fall back to tf.einsum): counted, not failed; a returned value must equal numpy.einsum to 1e-10",
    "cached_shape / cached integrals are compared with floating couplings only (their applicability condition); line-shape parameters stay fixed",
    "jit_compile is exercised in the thorough tier only; if XLA is unavailable it is reported as inconclusive_xla",
]

STRATEGIES = {
    "cached_amp": {"amp_model": "cached_amp", "preprocessor": "cached_amp"},
    "cached_amp_stripped": {"amp_model": "cached_amp", "preprocessor": "cached_amp", "no_p4": True, "no_angle": True},
    "cached_shape": {"amp_model": "cached_shape", "preprocessor": "cached_shape"},
    "base_factor": {"amp_model": "base_factor"},
    "base_factor_cached_angle": {"amp_model": "base_factor", "preprocessor": "cached_angle"},
    "p4_directly": {"amp_model": "p4_directly", "preprocessor": "p4_directly"},
    "tf_function": {"use_tf_function": True},
    "tf_function_no_id": {"use_tf_function": True, "no_id_cached": True},
    "cached_amp_tf_function": {"amp_model": "cached_amp", "preprocessor": "cached_amp", "use_tf_function": True, "no_id_cached": True},
    "lazy_call": {"lazy_call": True},
    "jit_compile": {"use_tf_function": True, "jit_compile": True, "no_id_cached": True},
}


class EinsumSpy:
    """wrap tf_pwa.amp.core.einsum: every program the builder emits is
    compared with numpy.einsum"""

    def __init__(self, ctx):
        self.ctx = ctx
        self.n = 0
        self.declined = 0
        self.bad = None

    def __enter__(self):
        import tf_pwa.amp.core as core

        self.core = core
        self.orig = core.einsum
        me = self

        def spy(expr, *args, **kw):
            try:
                ret = me.orig(expr, *args, **kw)
            except Exception:
                me.declined += 1
                raise
            me.n += 1
            if me.bad is None and me.n <= 40:
                ref = np.einsum(expr, *[np.asarray(a) for a in args])
                got = np.asarray(ret)
                if got.shape != ref.shape or not np.allclose(got, ref, rtol=1e-10, atol=1e-12 * (1 + np.max(np.abs(ref)) if ref.size else 1)):
                    me.bad = (expr, [tuple(a.shape) for a in args], float(np.max(np.abs(got - ref))) if got.shape == ref.shape else "shape %s vs %s" % (got.shape, ref.shape))
            return ret

        core.einsum = spy
        return self

    def __exit__(self, *a):
        self.core.einsum = self.orig


@oracle
def strategy_equivalence(ctx, case):
    tf = env.tfpwa()
    spec = case["spec"]
    if not spec["chains"]:
        return {"skip": "no_chain"}
    sfx = env.uniq()
    if case.get("float_shape"):
        # mass and width of one resonance float: cached line shapes must only be used for the chains with fixed shapes
        spec = json.loads(json.dumps(spec))
        ch = spec["chains"][case["ev_seed"] % len(spec["chains"])]
        k0 = sorted(ch["res"])[0]
        ch["res"][k0] = dict(ch["res"][k0], float="mg")
    cfg, nm = gen.build(spec, sfx=sfx)
    with EinsumSpy(ctx) as spy:
        config = cards.load(cfg)
        amp = config.get_amplitude()
        cards.assign_params(amp, case["pv"])
        ref_params = {k: float(v) for k, v in amp.get_params().items()}
        p = gen.events(spec, case["ev_seed"], case["n_ev"])
        d0, data0 = cards.density(config, amp, p)
    ctx.check(spy.bad is None, "builder_contraction_value", "contraction emitted by the amplitude builder differs from numpy.einsum: %s" % (spy.bad,))
    scale = float(np.median(d0))
    if not np.all(np.isfinite(d0)) or scale <= 0:
        return {"skip": "degenerate_density"}
    # the couplings after a change (by name)
    changed = dict(ref_params)
    tv = sorted(amp.vm.trainable_vars)
    for k, v in zip(tv, case["pv2"] * 4):
        if k.endswith("r"):
            changed[k] = 0.3 + 1.5 * v
        elif k.endswith("i"):
            changed[k] = (2 * v - 1) * math.pi
        elif k.endswith("_mass"):
            changed[k] = ref_params[k] * (1 + 0.03 * (v - 0.3))
        elif k.endswith("_width"):
            changed[k] = ref_params[k] * (0.8 + 0.6 * v)
    amp.set_params(changed)
    d0b, _ = cards.density(config, amp, p)
    amp.set_params(ref_params)
    cls = gen.describe(spec)
    if case.get("float_shape"):
        cls.append("floating_line_shape")
    nvar = 0
    for sname in case["strategies"]:
        opts = STRATEGIES[sname]
        if sname == "jit_compile" and ctx.quick:
            continue
        sp = dict(spec)
        sp["data"] = dict(opts)
        cfg2, _ = gen.build(sp, sfx=sfx)
        what = "strategy %s %s" % (sname, opts)
        try:
            c2 = cards.load(cfg2)
            a2 = c2.get_amplitude()
            a2.set_params(ref_params)
            data = c2.data.cal_angle(p4=[np.asarray(x) for x in p])
            d1 = np.asarray(a2(data))
            d2 = np.asarray(a2(data))  # second call on the same object: cached path
            a2.set_params(changed)
            d3 = np.asarray(a2(data))
            a2.set_params(ref_params)
            d4 = np.asarray(a2(data))
        except Exception as e:
            if sname == "jit_compile" and ("XLA" in str(e) or "jit" in str(e).lower()):
                ctx.count("inconclusive_xla")
                continue
            raise
        ctx.close(d1, d0, "strategy_density", rtol=1e-8, atol=1e-10 * scale, what=what + " (first call)")
        ctx.close(d2, d0, "strategy_density_second_call", rtol=1e-8, atol=1e-10 * scale, what=what + " (second call, same data object)")
        ctx.close(d3, d0b, "strategy_follows_parameters", rtol=1e-8, atol=1e-10 * scale, what=what + " (after changing the couplings)")
        ctx.close(d4, d0, "strategy_density_restored", rtol=1e-8, atol=1e-10 * scale, what=what + " (after restoring the couplings)")
        if len(spec["chains"]) >= 2 and "use_tf_function" not in opts:
            # a subset of the decay chains (as the fit-fraction code selects them): eager strategies index their caches by the used chains
            k = case["ev_seed"] % len(spec["chains"])
            dg0, dg2 = amp.decay_group, a2.decay_group
            old0, old2 = list(dg0.chains_idx), list(dg2.chains_idx)
            try:
                dg0.set_used_chains([k])
                dg2.set_used_chains([k])
                d0p = np.asarray(amp.pdf(data0))
                from tf_pwa.data import LazyCall

                d5 = np.asarray(a2.pdf(data.eval() if isinstance(data, LazyCall) else data))
            finally:
                dg0.set_used_chains(old0)
                dg2.set_used_chains(old2)
            ctx.close(d5, d0p, "strategy_chain_subset", rtol=1e-8, atol=1e-10 * scale, what=what + " (only chain %d in use)" % k)
            cls.append("chain_subset")
        cls.append("strategy:" + sname)
        nvar += 1
    spin = any(gen.fr(f["J"]) > 0 for f in spec["finals"])
    return {"nontrivial": nvar > 0 and len(spec["chains"]) >= 2 and spin, "classes": cls, "builder_contractions_checked": min(spy.n, 40), "builder_declined": spy.declined}


@oracle
def cached_likelihoods(ctx, case):
    """cached-integral / cached-amplitude likelihoods give the NLL and gradient of the default model"""
    # (no Gaussian constraints here: NllCase centres them on the model's own randomly initialised state, which is not
    # the same in two separately built models; the constraint term is model independent and is decided by C06/C07)
    base = dict(case, model="default", batch=65000, n_sets=1, gauss_fixed=False, gauss=[])
    nc0 = nllcase.NllCase(base)
    v0, g0 = nc0.fcn.nll_grad({})
    ref_params = {k: float(v) for k, v in nc0.amp.get_params().items()}
    names0 = list(nc0.amp.vm.trainable_vars)
    g0 = dict(zip(names0, np.asarray(g0, dtype=float)))
    cls = []
    LIK = {
        "cached_int": ("cached_int", {}),
        "cached_amp": ("cached_amp", {}),
        "lazy_call": ("default", {"lazy_call": True}),
        "lazy_call_cached_amp": ("default", {"lazy_call": True, "amp_model": "cached_amp", "preprocessor": "cached_amp"}),
        "tf_function": ("default", {"use_tf_function": True, "no_id_cached": True}),
        "amp_cached_shape": ("default", {"amp_model": "cached_shape", "preprocessor": "cached_shape"}),
    }
    for mdl in case["cached_models"]:
        c = dict(base, model=LIK[mdl][0], data_extra=LIK[mdl][1], batch=case["lik_batch"])
        nc = nllcase.NllCase(c)
        # same structure, same samples (same seeds), same parameters by name
        p1 = nc.amp.get_params()
        s0, s1 = nc0.nm["top"][1:], nc.nm["top"][1:]
        mapping = {k: k.replace(s1, s0) for k in p1}
        nc.amp.set_params({k: ref_params[mapping[k]] for k in p1})
        v, g = nc.fcn.nll_grad({})
        ctx.check(abs(float(v) - float(v0)) <= 1e-8 * max(1.0, abs(float(v0))), "cached_likelihood_value", "%s NLL %.12g vs default %.12g" % (mdl, float(v), float(v0)))
        names = list(nc.amp.vm.trainable_vars)
        gm = np.array([g0[mapping[k]] for k in names])
        ctx.close(np.asarray(g, dtype=float), gm, "cached_likelihood_gradient", rtol=1e-6, atol=1e-8 * (1 + float(np.max(np.abs(gm)))), what="%s gradient vs default" % mdl)
        vc = float(nc.fcn({}))
        ctx.check(abs(vc - float(v0)) <= 1e-8 * max(1.0, abs(float(v0))), "cached_likelihood_call", "%s fcn() %.12g vs default %.12g" % (mdl, vc, float(v0)))
        cls.append("model=" + mdl)
    return {"nontrivial": True, "classes": cls}


# ------------------------------------------------- (ii) contraction programs
LABELS = "abcdefgh"


@oracle
def contraction_program(ctx, case):
    tf = env.tfpwa()
    from tf_pwa.einsum import einsum

    sizes = {l: s for l, s in zip(LABELS, case["sizes"])}
    ops = [o for o in case["operands"] if o]
    if not ops:
        return {"skip": "no_operand"}
    used = sorted(set("".join(ops)))
    out = "".join(l for l in case["out"] if l in used)
    out = "".join(dict.fromkeys(out))
    nb = case["n_batch"]
    bshape = tuple(case["batch_sizes"][:nb])
    rng = np.random.RandomState(case["seed"] % 2**31)
    arrays = []
    for i, o in enumerate(ops):
        shp = tuple(sizes[l] for l in o)
        bs = bshape
        if nb and case["broadcast"][i % len(case["broadcast"])]:
            bs = tuple(1 if (case["broadcast"][(i + k) % len(case["broadcast"])] and k > 0) else b for k, b in enumerate(bshape))
        full = (bs if nb else ()) + shp
        arrays.append(rng.normal(size=full) + 1j * rng.normal(size=full))
    pre = "..." if nb else ""
    expr = ",".join(pre + o for o in ops) + "->" + pre + out
    try:
        ref = np.einsum(expr, *arrays)
    except Exception:
        return {"skip": "numpy_rejects_expression"}
    try:
        got = einsum(expr, *[tf.constant(a) for a in arrays])
    except Exception as e:
        return {"skip": "declined:%s" % type(e).__name__, "classes": ["declined"]}
    got = np.asarray(got)
    ctx.check(got.shape == ref.shape, "contraction_shape", "%s with shapes %s: shape %s, reference %s" % (expr, [a.shape for a in arrays], got.shape, ref.shape))
    tolv = 1e-10 * (1 + float(np.max(np.abs(ref))) if ref.size else 1.0)
    ctx.check(np.allclose(got, ref, rtol=1e-10, atol=tolv), "contraction_value", "%s with shapes %s: max |diff| = %.3e (reference scale %.3e)" % (expr, [a.shape for a in arrays], float(np.max(np.abs(got - ref))) if ref.size else 0.0, float(np.max(np.abs(ref))) if ref.size else 0.0))
    summed = [l for l in used if l not in out]
    shared = [l for l in summed if sum(l in o for o in ops) >= 2]
    size1 = any(sizes[l] == 1 for l in used)
    cls = ["nops=%d" % len(ops), "summed=%d" % min(len(summed), 4)]
    if nb:
        cls.append("batch_dims=%d" % nb)
    if size1:
        cls.append("size1_label")
    return {"nontrivial": len(ops) >= 3 and bool(shared) and (size1 or len(summed) >= 2), "classes": cls}


operand_st = st.lists(st.sampled_from(list(LABELS[:6])), min_size=1, max_size=4, unique=True).map("".join)
prog_st = st.fixed_dictionaries(
    {
        "sizes": st.lists(st.sampled_from([1, 2, 3, 4, 2, 3]), min_size=8, max_size=8),
        "operands": st.lists(operand_st, min_size=1, max_size=6),
        "out": st.lists(st.sampled_from(list(LABELS[:6])), max_size=4, unique=True).map("".join),
        "n_batch": st.sampled_from([0, 0, 1, 1, 2]),
        "batch_sizes": st.lists(st.integers(1, 4), min_size=2, max_size=2),
        "broadcast": st.lists(st.booleans(), min_size=3, max_size=3),
        "seed": st.integers(0, 10**6),
    }
)
# programs shaped like the builder's: equal sizes for several labels so that ties
# in the internal ordering cannot hide behind a shape mismatch
equal_st = st.fixed_dictionaries(
    {
        "sizes": st.sampled_from([[3] * 8, [2] * 8, [4, 4, 3, 3, 4, 4, 3, 3]]),
        "operands": st.lists(operand_st, min_size=2, max_size=5),
        "out": st.lists(st.sampled_from(list(LABELS[:6])), max_size=3, unique=True).map("".join),
        "n_batch": st.sampled_from([0, 1]),
        "batch_sizes": st.lists(st.integers(1, 3), min_size=2, max_size=2),
        "broadcast": st.just([False, False, False]),
        "seed": st.integers(0, 10**6),
    }
)


def strat_case_st(nfinal=3):
    names = [k for k in STRATEGIES]
    return st.fixed_dictionaries(
        {
            "spec": gen.structure(nfinal=3, max_chains=3, min_chains=1) if nfinal == 3 else gen.structure(nfinal=4, max_chains=2, min_chains=1, spins=["0", "1/2", "1"]),
            "pv": st.lists(st.floats(0.05, 0.95), min_size=8, max_size=8),
            "pv2": st.lists(st.floats(0.05, 0.95), min_size=8, max_size=8),
            "ev_seed": st.integers(0, 2**31 - 1),
            "n_ev": st.just(12),
            "strategies": st.lists(st.sampled_from(names), min_size=3, max_size=4, unique=True),
            "float_shape": st.booleans(),
        }
    )


def run_strategies(ctx):
    ctx.run_cases(strategy_equivalence, strat_case_st(), ctx.n(60, 1200), name="three_body")
    # four-body cascades: longer contraction programs (cyclic axis permutations only occur here)
    ctx.run_cases(strategy_equivalence, strat_case_st(4), ctx.n(20, 400), name="four_body")


def run_cached_lik(ctx):
    small = gen.structure(nfinal=3, max_chains=2, min_chains=2, spins=["0", "1/2", "1"])
    base = nllcase.case_strategy(["default"], nmax=(40, 10, 90), spec=small)
    st_ = st.tuples(base, st.lists(st.sampled_from(["cached_int", "cached_amp", "lazy_call", "lazy_call_cached_amp", "tf_function", "amp_cached_shape"]), min_size=2, max_size=3, unique=True), st.sampled_from([9, 17, 65000])).map(lambda t: dict(t[0], cached_models=t[1], lik_batch=t[2]))
    ctx.run_cases(cached_likelihoods, st_, ctx.n(12, 300))


def run_programs(ctx):
    ctx.run_cases(contraction_program, prog_st, ctx.n(2400, 150000), name="contraction_random")
    ctx.run_cases(contraction_program, equal_st, ctx.n(1600, 80000), name="contraction_equal_sizes")


def run_regressions(ctx):
    """saved shrunk failures of repaired defects, replayed without the library"""
    import glob, json, os

    here = os.path.join(os.path.dirname(os.path.dirname(os.path.abspath(__file__))), "pinned", "C05")
    for f in sorted(glob.glob(os.path.join(here, "*.json"))):
        with open(f) as fh:
            d = json.load(fh)
        fn = {"c05.contraction_program": contraction_program, "c05.strategy_equivalence": strategy_equivalence}[d["oracle"]]
        ctx.eval(fn, d["case"])
    for expr in ["efdb,dcfb->bc", "aefdb,adcfb->abc", "abcd,bcde,cdef->af", "ab,cb,db->acd"]:
        ops = expr.split("->")[0].split(",")
        ctx.eval(contraction_program, {"sizes": [3] * 8, "operands": ops, "out": expr.split("->")[1], "n_batch": 0, "batch_sizes": [1, 1], "broadcast": [False] * 3, "seed": 5})


SUBCHECKS = [
    Sub("regressions", run_regressions, shards=(1, 1), budget=(120, 300)),
    Sub("strategies", run_strategies, shards=(10, 12), budget=(280, 3000), weight=3),
    Sub("cached_likelihoods", run_cached_lik, shards=(4, 6), budget=(280, 3000), weight=2),
    Sub("programs", run_programs, shards=(3, 8), budget=(250, 3000)),
]
