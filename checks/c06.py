"""C06 - the negative log-likelihood equals its defining formula."""

import math

import numpy as np
from hypothesis import strategies as st

from vlib import cards, env, gen, nllcase
from vlib.api import Sub, oracle

RULE = (
    "case = generated 3-body structure (2-3 chains), data 20-120 / background 0-40 / phase space 50-300 events from the harness generator, data weights unit / positive / signed, "
    "optional phase-space weights, bg_weight, likelihood model in {default, extended, cfit, cfit_cached, cfit_extended, cached_int, cached_amp, simple, simple_clip}, 0-2 Gaussian constraints, "
    "batch in {7, 13, 65000}, 1-2 simultaneous data sets; oracles: fcn({}) == numpy formula on plain eager densities; value from nll_grad and for other batch sizes identical; "
    "common rescaling of all couplings leaves a non-extended NLL unchanged. non-trivial = (background or non-unit weights) and a batch that does not divide the sample; distinct = hash of the case"
)
ASSUMPTIONS = [
    "densities are kept above 1e-3 by a common rescaling of the couplings so that the clip_log branch (f <= 1e-6) is never taken",
    "the legacy inject_mc model is not claimed (as the property states)",
    "relative tolerance 1e-9 on the NLL (absolute 1e-9 when |NLL| < 1)",
]


def tol(x):
    return 1e-9 * max(1.0, abs(x))


CACHED = ("cached_int", "cached_amp", "cfit_cached")


def _cheapen(case):
    """The cached models trace one tf.function per batch (seconds each): give
    them two unequal batches instead of a dozen."""
    if case["model"] in CACHED and case["batch"] != 65000:
        case = dict(case)
        case["n_data"] = min(case["n_data"], 40)
        case["n_phsp"] = min(case["n_phsp"], 90)
        case["batch"] = max(case["n_data"], case["n_phsp"]) // 2 + 3
    return case


@oracle
def nll_formula(ctx, case):
    if len(case["spec"]["chains"]) < 1:
        return {"skip": "no_chain"}
    case = _cheapen(case)
    nc = nllcase.NllCase(case)
    fcn = nc.fcn
    ref, info = nc.reference()
    ctx.check(math.isfinite(ref), "harness_reference_finite", str(ref))
    val = float(fcn({}))
    ctx.check(abs(val - ref) <= tol(ref), "nll_equals_formula", "model=%s batch=%d sets=%d: fcn()=%.12g, formula=%.12g (diff %.3e)" % (nc.model, case["batch"], case["n_sets"], val, ref, val - ref))
    v2, g2 = fcn.nll_grad({})
    ctx.check(abs(float(v2) - ref) <= tol(ref), "nll_grad_value_equals_formula", "model=%s batch=%d: nll_grad()[0]=%.12g, formula=%.12g" % (nc.model, case["batch"], float(v2), ref))
    # batch-size independence (fresh FCN objects on the same model)
    vals = {case["batch"]: float(v2)}
    alts = (11, 65000) if case["batch"] != 65000 else (11, case["n_data"])
    if case["model"] in CACHED:
        alts = (65000,) if case["batch"] != 65000 else (max(case["n_data"], case["n_phsp"]) // 2 + 3,)
    for b in alts:
        if b in vals:
            continue
        f2 = nc.make_fcn(b)
        vb, gb = f2.nll_grad({})
        vals[b] = float(vb)
        ctx.check(abs(float(vb) - ref) <= tol(ref), "batch_independence", "model=%s: batch %d gives %.12g, formula %.12g" % (nc.model, b, float(vb), ref))
        ctx.close(np.asarray(gb, dtype=float), np.asarray(g2, dtype=float), "batch_independence_gradient", rtol=1e-7, atol=1e-8 * (1 + float(np.max(np.abs(np.asarray(g2, dtype=float))))), what="gradient at batch %d vs %d" % (b, case["batch"]))
        vc = float(f2({}))
        ctx.check(abs(vc - ref) <= tol(ref), "batch_independence_call", "model=%s: fcn() with batch %d gives %.12g" % (nc.model, b, vc))
    # common rescaling of all amplitudes
    if nc.model not in ("extended", "cfit_extended", "constr_frac") and not nc.gauss_on_totals():
        lam = case["lam"]
        before = dict(nc.amp.get_params())
        nc.rescale_totals(lam)
        vs = float(fcn({}))
        nc.amp.set_params(before)
        if nc.model.startswith("cfit"):
            pass  # the background term is not scaled: only the pure-signal models are scale invariant
        else:
            ctx.check(abs(vs - ref) <= 1e-8 * max(1.0, abs(ref)), "scale_invariance", "model=%s: NLL %.12g after scaling all couplings by %g, %.12g before" % (nc.model, vs, lam, ref))
    has_bg = any(s["bg"] is not None for s in nc.sets)
    nt = (has_bg or case["wmode"] != "unit") and case["batch"] < max(case["n_data"], case["n_phsp"]) and case["n_phsp"] % case["batch"] != 0
    cls = ["model=" + nc.model, "sets=%d" % case["n_sets"], "w=" + case["wmode"]]
    if has_bg:
        cls.append("background")
    if nc.gauss:
        cls.append("gauss_constr")
    if case["phsp_weights"]:
        cls.append("phsp_weights")
    return {"nontrivial": nt, "classes": cls, "min_density": info.get("min_density")}


@oracle
def cached_model_history(ctx, case):
    """Several FCNs built one after another from explicit samples on the same
    configuration (as toy studies do): every FCN must report the NLL of ITS
    sample.  The cached models key their caches by id() of released objects."""
    import gc

    case = dict(_cheapen(case), n_sets=1, gauss=[], batch=65000)
    nc = nllcase.NllCase(case)
    seen = []
    for rnd in range(case["rounds"]):
        if rnd:
            # new sample first, then release the previous FCN immediately
            # before the next one is built (the order a toy loop produces)
            nc.make_sets(case["seed"] + 1000 * rnd)
            nc.fcn = nc.make_fcn(65000)  # the previous FCN is released after the new one exists
        ref, info = nc.reference()
        if info.get("min_density", 1) < 1e-5:
            return {"skip": "density_in_clip_log_branch"}
        v, g = nc.fcn.nll_grad({})
        ctx.check(abs(float(v) - ref) <= tol(ref), "nll_of_own_sample", "model=%s round %d: nll_grad()[0]=%.12g, formula for this sample %.12g (earlier samples: %s)" % (nc.model, rnd, float(v), ref, seen))
        seen.append(round(ref, 6))
    return {"nontrivial": True, "classes": ["model=" + nc.model, "fcn_rebuilt_x%d" % case["rounds"]]}


def _gauss_on_totals(self):
    return any(n.endswith("_total_0r") for n in self.gauss)


nllcase.NllCase.gauss_on_totals = _gauss_on_totals


def case_st(models=None):
    base = nllcase.case_strategy(models)
    return st.tuples(base, st.floats(0.3, 3.0)).map(lambda t: dict(t[0], lam=t[1]))


def run_models(ctx):
    # one model family per shard group so that every model is exercised in every run
    groups = [["default", "extended", "constr_frac"], ["cfit", "cfit_cached"], ["cfit_extended", "simple", "simple_clip"], ["cached_int", "cached_amp"]]
    g = groups[ctx.shard % len(groups)]
    ctx.run_cases(nll_formula, case_st(g), ctx.n(48, 1500) * 1, name="nll_formula_%d" % (ctx.shard % len(groups)))


def run_history(ctx):
    st_ = st.tuples(nllcase.case_strategy(["cached_amp", "cached_int", "cfit_cached"]), st.integers(4, 6)).map(lambda t: dict(t[0], rounds=t[1], lam=1.0))
    ctx.run_cases(cached_model_history, st_, ctx.n(8, 300))


SUBCHECKS = [
    Sub("models", run_models, shards=(12, 16), budget=(280, 3000), weight=2),
    Sub("cached_history", run_history, shards=(4, 8), budget=(280, 3000)),
]
