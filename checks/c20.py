"""C20 - samplers, histograms and adaptive bins reproduce their targets."""

import math
import os

import numpy as np
from hypothesis import strategies as st

from vlib import cards, env, kin
from vlib.api import Sub, oracle, run_pinned

RULE = (
    "(a) acceptance-rejection: synthetic proposal (uniform or known importance density on [0,1]) and target pdf with a narrow peak so the bound must be raised mid-run, small max_N to force several rounds, "
    "importance_f on/off, drawn seeds; (b) ConfigLoader.generate_toy / generate_toy_p on generated 2-resonance cards, N=1500-3000; (c) LinearInterp / BWGenerator / InterpND on Hypothesis-drawn monotone "
    "(non-uniform) grids with non-negative node values incl. zero and flat segments; (d) AdaptiveBound on distinct well separated values, 1-3 dimensions, nested bin lists; (e) Hist1D / WeightedData with signed weights. "
    "non-trivial: (a) bound raised at least once, (b) always, (c) grid with a zero-density or flat segment or non-uniform spacing, (d) >=2 dimensions, (e) negative weights present; distinct = hash of the case"
)
ASSUMPTIONS = [
    "statistical statements: KS / chi-square tests at p < 1e-9/(tests in the case)",
    "LinearInterp.solve is asserted on u in [0,1) (generate never draws 1)",
    "toy spectra are compared with a phase-space sample of the library weighted by the library density (uniformity of that sample is C10, the density is C01-C05)",
]


def set_seed(seed):
    from tf_pwa.data import set_random_seed

    set_random_seed(int(seed))


# ------------------------------------------------------ (a) AR sampling
def target_pdf(x, peak, sigma, height):
    return 1.0 + height * np.exp(-0.5 * ((x - peak) / sigma) ** 2)


def target_cdf(x, peak, sigma, height):
    from scipy.special import erf

    g = lambda t: height * sigma * math.sqrt(math.pi / 2) * (erf((t - peak) / (sigma * math.sqrt(2))) - erf((0 - peak) / (sigma * math.sqrt(2))))
    tot = 1.0 + g(1.0)
    return (x + g(x)) / tot


@oracle
def ar_sampling(ctx, case):
    tf = env.tfpwa()
    from scipy import stats

    import tf_pwa.generator.generator as G

    peak, sigma, height = case["peak"], case["sigma"], case["height"]
    use_imp = case["importance"]
    a_imp = case["imp_slope"]  # proposal density g(x) = (1 + a x)/(1 + a/2)

    def phsp(n):
        u = tf.random.uniform((n,), dtype=tf.float64)
        if use_imp:
            # inverse CDF of g: G(x) = (x + a x^2/2)/(1+a/2)
            c = u * (1 + a_imp / 2)
            x = (-1 + tf.sqrt(1 + 2 * a_imp * c)) / a_imp
        else:
            x = u
        return {"x": x}

    def amp(d):
        x = d["x"]
        return 1.0 + height * tf.exp(-0.5 * ((x - peak) / sigma) ** 2)

    imp = (lambda d: (1 + a_imp * d["x"]) / (1 + a_imp / 2)) if use_imp else None
    rounds = []
    orig = G.single_sampling2

    def spy(phsp_, amp_, n, max_weight=None, importance_f=None):
        data, bound = orig(phsp_, amp_, n, max_weight, importance_f)
        w = np.asarray(amp_(data))
        if importance_f is not None:
            w = w / np.asarray(importance_f(data))
        rounds.append((float(bound), float(w.max()) if w.size else 0.0, int(w.size), None if max_weight is None else float(max_weight)))
        return data, bound

    set_seed(case["seed"])
    G.single_sampling2 = spy
    try:
        ret, status = G.multi_sampling(phsp, amp, case["N"], max_N=case["max_N"], force=True, importance_f=imp, display=False)
    finally:
        G.single_sampling2 = orig
    x = np.asarray(ret["x"])
    ctx.check(x.shape == (case["N"],), "exact_count", "requested %d, got %s" % (case["N"], x.shape))
    ctx.check(np.all((x >= 0) & (x <= 1)), "in_range", "")
    raised = 0
    for k, (bound, wmax, nacc, prev) in enumerate(rounds):
        ctx.check(wmax <= bound * (1 + 1e-12), "accepted_weight_above_bound", "round %d: accepted weight %.6g > bound %.6g (importance=%s)" % (k, wmax, bound, use_imp))
        if prev is not None and bound > prev * (1 + 1e-12):
            raised += 1
    final_bound = float(status[1])
    w_all = target_pdf(x, peak, sigma, height) / ((1 + a_imp * x) / (1 + a_imp / 2) if use_imp else 1.0)
    ctx.check(w_all.max() <= final_bound * (1 + 1e-9), "final_weight_above_bound", "max weight %.6g, final bound %.6g" % (w_all.max(), final_bound))
    pv = stats.kstest(target_cdf(x, peak, sigma, height), "uniform").pvalue
    ctx.check(pv > 1e-9, "sample_follows_density", "KS p=%.3e (N=%d, rounds=%d, raised=%d, importance=%s)" % (pv, case["N"], len(rounds), raised, use_imp))
    cls = ["rounds>=3"] if len(rounds) >= 3 else []
    if raised:
        cls.append("bound_raised")
    if use_imp:
        cls.append("importance_f")
    return {"nontrivial": raised > 0, "classes": cls, "rounds": len(rounds)}


ar_st = st.fixed_dictionaries(
    {
        "peak": st.floats(0.1, 0.9),
        "sigma": st.sampled_from([0.002, 0.005, 0.01, 0.0005]),
        "height": st.floats(3.0, 60.0),
        "importance": st.booleans(),
        "imp_slope": st.floats(0.5, 6.0),
        "N": st.sampled_from([3000, 6000, 12000]),
        "max_N": st.sampled_from([300, 1000, 3000]),
        "seed": st.integers(0, 2**31 - 1),
    }
)


# ------------------------------------------------------------- (b) toys
def toy_spec(case):
    mf = [0.3, 0.2, 0.5]
    M = 2.6
    return {
        "top": {"J": 0, "P": -1, "mass": M},
        "finals": [{"J": 0, "P": -1, "mass": m} for m in mf],
        "res": [
            {"pair": [0, 1], "J": case["J1"], "P": (-1) ** case["J1"], "mass": 0.6 + 1.2 * case["f1"], "width": case["w1"]},
            {"pair": [1, 2], "J": case["J2"], "P": (-1) ** case["J2"], "mass": 0.8 + 1.2 * case["f2"], "width": case["w2"]},
        ],
    }, M, mf


def weighted_ks(sample, ref, w):
    """KS distance between an unweighted sample and a weighted reference."""
    order = np.argsort(ref)
    ref = ref[order]
    cw = np.cumsum(w[order])
    cw = cw / cw[-1]
    s = np.sort(sample)
    f_ref = np.interp(s, ref, cw)
    n = len(s)
    d = max(np.max(np.abs(f_ref - np.arange(1, n + 1) / n)), np.max(np.abs(f_ref - np.arange(0, n) / n)))
    neff = w.sum() ** 2 / (w**2).sum()
    ne = n * neff / (n + neff)
    from scipy import stats

    return d, float(stats.kstwobign.sf(d * math.sqrt(ne)))


@oracle
def toys(ctx, case):
    tf = env.tfpwa()
    spec, M, mf = toy_spec(case)
    cfg, nm = cards.card3(spec)
    config = cards.load(cfg)
    amp = config.get_amplitude()
    cards.assign_params(amp, case["pv"])
    N = case["N"]
    set_seed(case["seed"])
    if case["mode"] == "toy":
        toy = config.generate_toy(N, max_N=case["max_N"])
    else:
        toy = config.generate_toy_p(N, max_N=case["max_N"])
    F = nm["finals"]
    if case["mode"] == "toy":
        p = [np.asarray(toy.get_momentum(f)) for f in F]
    else:
        p = [np.asarray(toy[k]) for k in sorted(toy.keys(), key=str)]
        ctx.check(sorted(str(k) for k in toy.keys()) == sorted(F), "toy_p_keys", str(list(toy.keys())))
        p = [np.asarray(toy[[k for k in toy if str(k) == f][0]]) for f in F]
    for a in p:
        ctx.check(a.shape == (N, 4), "exact_count", "requested %d events, shape %s" % (N, a.shape))
    for a, m in zip(p, mf):
        ctx.check(np.all(np.abs(kin.mass2(a) - m * m) <= 1e-9 * a[:, 0] ** 2), "toy_mass_shell", "max %.3e" % float(np.max(np.abs(kin.mass2(a) - m * m) / a[:, 0] ** 2)))
    tot = p[0] + p[1] + p[2]
    ctx.check(np.all(np.abs(tot[:, 0] - M) <= 1e-9 * M) and np.all(np.abs(tot[:, 1:]) <= 1e-9 * M), "toy_conservation", "")
    # reference: library phase space weighted with the library density
    from tf_pwa.phasespace import PhaseSpaceGenerator

    set_seed(case["seed"] + 1)
    ref = [np.asarray(x) for x in PhaseSpaceGenerator(M, mf).generate(60000)]
    dens, _ = cards.density(config, amp, ref)
    ntest = 3
    worst = 1.0
    for i, j in ((0, 1), (1, 2), (0, 2)):
        ms = kin.mass(p[i] + p[j])
        mr = kin.mass(ref[i] + ref[j])
        d, pv = weighted_ks(ms, mr, dens)
        worst = min(worst, pv)
        ctx.check(pv > 1e-9 / ntest, "toy_follows_density", "m(%d,%d): KS D=%.4f p=%.3e (N=%d, mode=%s)" % (i, j, d, pv, N, case["mode"]))
    return {"nontrivial": True, "classes": [case["mode"], "J=%d,%d" % (case["J1"], case["J2"])], "smallest_p": worst}


toy_st = st.fixed_dictionaries(
    {
        "J1": st.integers(0, 2),
        "J2": st.integers(0, 2),
        "f1": st.floats(0.1, 0.9),
        "f2": st.floats(0.1, 0.9),
        "w1": st.floats(0.02, 0.3),
        "w2": st.floats(0.02, 0.3),
        "pv": st.lists(st.floats(0, 1), min_size=6, max_size=6),
        "N": st.sampled_from([1500, 3000]),
        "max_N": st.sampled_from([2000, 20000, 100000]),
        "mode": st.sampled_from(["toy", "toy_p"]),
        "seed": st.integers(0, 2**31 - 1),
    }
)


# ----------------------------------------------- (c) inverse-transform samplers
def grid_from(case):
    dx = np.asarray(case["dx"], dtype=float)
    x = case["x0"] + np.concatenate([[0], np.cumsum(dx)])
    y = np.asarray(case["y"], dtype=float)[: len(x)]
    if len(y) < len(x):
        y = np.concatenate([y, np.ones(len(x) - len(y))])
    return x, y


@oracle
def linear_interp(ctx, case):
    env.tfpwa()
    from tf_pwa.generator.linear_interpolation import LinearInterp

    x, y = grid_from(case)
    if np.sum(0.5 * (y[1:] + y[:-1]) * np.diff(x)) <= 0:
        return {"skip": "zero_total_density"}
    f = LinearInterp(x, y)
    area = np.sum(0.5 * (y[1:] + y[:-1]) * np.diff(x))
    ctx.check(abs(f.int_all - area) <= 1e-12 * area, "total_integral", "%r vs %r" % (f.int_all, area))
    xs = x[0] + (x[-1] - x[0]) * np.asarray(case["t"], dtype=float)
    ctx.close(f(xs), np.interp(xs, x, y), "call_is_linear_interpolation", rtol=1e-12, atol=1e-12 * (1 + y.max()), what="f(x)")
    # integral(x) is the cumulative area
    fine = np.array([np.sum(0.5 * (np.interp(np.linspace(x[0], xx, 2), x, y)[:1])) for xx in xs])  # placeholder to keep shapes
    cum = []
    for xx in xs:
        k = np.searchsorted(x, xx, side="right") - 1
        k = min(max(k, 0), len(x) - 2)
        a = np.sum(0.5 * (y[1 : k + 1] + y[:k]) * np.diff(x[: k + 1]))
        yy = np.interp(xx, x, y)
        a += 0.5 * (y[k] + yy) * (xx - x[k])
        cum.append(a)
    cum = np.asarray(cum)
    ctx.close(f.integral(xs), cum, "integral_is_cumulative_area", rtol=1e-10, atol=1e-12 * area, what="integral(x)")
    u = np.asarray(case["u"], dtype=float)
    u = np.minimum(u, 1 - 1e-12)
    sol = f.solve(u)
    ctx.check(np.all(np.isfinite(sol)), "solve_finite", "solve(%s) = %s" % (u[:4], sol[:4]))
    ctx.check(np.all(sol >= x[0] - 1e-7 * (x[-1] - x[0])) and np.all(sol <= x[-1] + 1e-7 * (x[-1] - x[0])), "solve_in_range", "range (%g,%g): %s" % (x[0], x[-1], sol[:5]))
    ctx.close(f.integral(sol), u * f.int_all, "integral_of_solve_is_u", rtol=1e-7, atol=1e-7 * area, what="integral(solve(u))")
    # solve(integral(x)/int_all) == x on positive-density segments
    seg = np.clip(np.searchsorted(x, xs, side="right") - 1, 0, len(x) - 2)
    pos = (y[seg] > 1e-6 * y.max()) & (y[seg + 1] > 1e-6 * y.max())
    if pos.any():
        back = f.solve(np.minimum(cum[pos] / area, 1 - 1e-13))
        ctx.close(back, xs[pos], "solve_inverts_integral", rtol=0, atol=1e-6 * (x[-1] - x[0]), what="solve(integral(x))")
    set_seed(case["seed"])
    g = f.generate(200)
    ctx.check(g.shape == (200,) and np.all((g >= x[0]) & (g <= x[-1])), "generate_in_range", "")
    flat = bool(np.any(np.diff(y) == 0))
    zero = bool(np.any((y[1:] == 0) & (y[:-1] == 0)))
    nonuni = bool(np.ptp(np.diff(x)) > 1e-9)
    return {"nontrivial": flat or zero or nonuni, "classes": [c for c, b in (("flat_segment", flat), ("zero_density_segment", zero), ("non_uniform_grid", nonuni)) if b]}


@oracle
def bw_generator(ctx, case):
    env.tfpwa()
    from scipy import stats

    from tf_pwa.generator.breit_wigner import BWGenerator

    m0, g0 = case["m0"], case["g0"]
    lo = m0 - case["below"]
    hi = m0 + case["above"]
    g = BWGenerator(m0, g0, lo, hi)
    u = np.asarray(case["u"], dtype=float)
    sol = g.solve(u)
    ctx.check(np.all((sol >= lo - 1e-9) & (sol <= hi + 1e-9)), "bw_in_range", "%s not in (%g,%g)" % (sol[:4], lo, hi))
    cdf = (np.arctan((sol - m0) / (g0 / 2)) - np.arctan((lo - m0) / (g0 / 2))) / (np.arctan((hi - m0) / (g0 / 2)) - np.arctan((lo - m0) / (g0 / 2)))
    ctx.close(cdf, u, "bw_solve_inverts_cdf", rtol=0, atol=1e-9, what="CDF(solve(u))")
    ctx.close((g.integral(sol) - g.integral(lo)) / g.int_all, u, "bw_integral_consistent", rtol=0, atol=1e-9, what="integral")
    ctx.close(g(sol), 1 / ((sol - m0) ** 2 + g0**2 / 4), "bw_density", rtol=1e-12, what="pdf")
    set_seed(case["seed"])
    s = g.generate(4000)
    c2 = (np.arctan((s - m0) / (g0 / 2)) - np.arctan((lo - m0) / (g0 / 2))) / (np.arctan((hi - m0) / (g0 / 2)) - np.arctan((lo - m0) / (g0 / 2)))
    ctx.check(stats.kstest(c2, "uniform").pvalue > 1e-9, "bw_sample_distribution", "")
    return {"nontrivial": True, "classes": ["asymmetric_window"] if abs(case["below"] - case["above"]) > 0.1 else []}


@oracle
def interp_nd(ctx, case):
    env.tfpwa()
    from scipy import stats
    from scipy.interpolate import RegularGridInterpolator

    from tf_pwa.generator.interp_nd import InterpND

    nd = case["nd"]
    xs = []
    for d in range(nd):
        dx = np.asarray(case["dx"][d], dtype=float)
        xs.append(np.concatenate([[0.0], np.cumsum(dx)]) + d)
    shape = tuple(len(x) for x in xs)
    rng = np.random.RandomState(case["zseed"])
    z = rng.uniform(0.2, 3.0, size=shape)
    if case["zero_corner"]:
        z[(0,) * nd] = 0.0
    f = InterpND(xs, z)
    pts = np.stack([xs[d][0] + (xs[d][-1] - xs[d][0]) * np.asarray(case["t"][d], dtype=float) for d in range(nd)])
    ref = RegularGridInterpolator(xs, z, method="linear")(pts.T)
    ctx.close(f(list(pts)), ref, "interp_nd_call", rtol=1e-10, atol=1e-12, what="InterpND(x) vs scipy")
    set_seed(case["seed"])
    N = 40000
    s = f.generate(N)
    ctx.check(s.shape == (N, nd), "interp_nd_shape", str(s.shape))
    for d in range(nd):
        ctx.check(np.all((s[:, d] >= xs[d][0]) & (s[:, d] <= xs[d][-1])), "interp_nd_in_range", "dim %d" % d)
    # cell occupancy vs integral of the multilinear interpolant over each cell
    # = (mean of the 2^nd corner values) * cell volume
    import itertools

    corner_mean = np.zeros(tuple(n - 1 for n in shape))
    for corner in itertools.product((0, 1), repeat=nd):
        sl = tuple(slice(c, c + n - 1) for c, n in zip(corner, shape))
        corner_mean += z[sl]
    corner_mean /= 2**nd
    vol = np.ones(tuple(n - 1 for n in shape))
    for d in range(nd):
        sh = [1] * nd
        sh[d] = shape[d] - 1
        vol = vol * np.diff(xs[d]).reshape(sh)
    expect = corner_mean * vol
    expect = expect / expect.sum() * N
    idx = tuple(np.clip(np.searchsorted(xs[d], s[:, d], side="right") - 1, 0, shape[d] - 2) for d in range(nd))
    obs = np.zeros_like(expect)
    np.add.at(obs, idx, 1)
    ok = expect >= 20
    chi2 = float(np.sum((obs[ok] - expect[ok]) ** 2 / expect[ok]))
    ndf = int(ok.sum()) - 1
    pv = float(stats.chi2.sf(chi2, max(ndf, 1)))
    nonuni = any(np.ptp(np.diff(x)) > 1e-9 for x in xs)
    ctx.check(pv > 1e-9, "interp_nd_cell_occupancy", "chi2/ndf = %.1f/%d p=%.3e (nd=%d, non-uniform grid=%s)" % (chi2, ndf, pv, nd, nonuni))
    # histogram-like variant: piecewise constant density = max of the cell corners
    from tf_pwa.generator.interp_nd import InterpNDHist

    fh = InterpNDHist(xs, z)
    cmax = np.zeros(tuple(n - 1 for n in shape))
    for corner in itertools.product((0, 1), repeat=nd):
        sl = tuple(slice(c, c + n - 1) for c, n in zip(corner, shape))
        cmax = np.maximum(cmax, z[sl])
    ctx.close(fh(list(pts)), cmax[tuple(np.clip(np.searchsorted(xs[d], pts[d], side="right") - 1, 0, shape[d] - 2) for d in range(nd))], "interp_nd_hist_call", rtol=1e-12, what="InterpNDHist(x)")
    set_seed(case["seed"] + 7)
    sh_ = fh.generate(N)
    for d in range(nd):
        ctx.check(np.all((sh_[:, d] >= xs[d][0]) & (sh_[:, d] <= xs[d][-1])), "interp_nd_hist_in_range", "dim %d" % d)
    expect_h = cmax * vol
    expect_h = expect_h / expect_h.sum() * N
    idxh = tuple(np.clip(np.searchsorted(xs[d], sh_[:, d], side="right") - 1, 0, shape[d] - 2) for d in range(nd))
    obs_h = np.zeros_like(expect_h)
    np.add.at(obs_h, idxh, 1)
    okh = expect_h >= 20
    chi2h = float(np.sum((obs_h[okh] - expect_h[okh]) ** 2 / expect_h[okh]))
    pvh = float(stats.chi2.sf(chi2h, max(int(okh.sum()) - 1, 1)))
    ctx.check(pvh > 1e-9, "interp_nd_hist_cell_occupancy", "chi2 = %.1f/%d p=%.3e (nd=%d, non-uniform grid=%s)" % (chi2h, int(okh.sum()) - 1, pvh, nd, nonuni))
    return {"nontrivial": nd >= 2 or nonuni, "classes": ["nd=%d" % nd] + (["non_uniform_grid"] if nonuni else [])}


dxs = st.lists(st.one_of(st.floats(0.05, 1.0), st.sampled_from([0.25, 0.5])), min_size=2, max_size=7)
# node values: exactly zero or of order one (the class flattens slopes below its epsilon=1e-10,
# so densities of 1e-100 are outside what it represents)
yv = st.one_of(st.floats(0.01, 5.0), st.sampled_from([0.0, 0.0, 1.0, 2.0]))
lin_st = st.fixed_dictionaries(
    {
        "x0": st.floats(-3, 3),
        "dx": dxs,
        "y": st.lists(yv, min_size=8, max_size=8),
        "t": st.lists(st.floats(0, 1), min_size=6, max_size=12),
        "u": st.lists(st.one_of(st.floats(1e-6, 0.999999), st.sampled_from([1e-6, 0.5, 0.999999])), min_size=6, max_size=12),
        "seed": st.integers(0, 10**6),
    }
)
bw_st = st.fixed_dictionaries(
    {
        "m0": st.floats(0.3, 3.0),
        "g0": st.floats(0.005, 0.5),
        "below": st.floats(0.01, 1.0),
        "above": st.floats(0.01, 1.0),
        "u": st.lists(st.floats(0, 1), min_size=5, max_size=12),
        "seed": st.integers(0, 10**6),
    }
)
nd_st = st.integers(1, 3).flatmap(
    lambda nd: st.fixed_dictionaries(
        {
            "nd": st.just(nd),
            "dx": st.lists(st.lists(st.one_of(st.floats(0.2, 1.0), st.just(0.5)), min_size=2, max_size=4), min_size=nd, max_size=nd),
            "t": st.lists(st.lists(st.floats(0, 1), min_size=6, max_size=6), min_size=nd, max_size=nd),
            "zseed": st.integers(0, 10**6),
            "zero_corner": st.booleans(),
            "seed": st.integers(0, 10**6),
        }
    )
)


# ------------------------------------------------------ (d) adaptive bins
@oracle
def adaptive_bins(ctx, case):
    env.tfpwa()
    from tf_pwa.adaptive_bins import AdaptiveBound

    nd, N = case["nd"], case["N"]
    rng = np.random.RandomState(case["seed"])
    # distinct, well separated values: a shuffled grid with spacing 1e-3 per dimension
    data = np.stack([rng.permutation(N) * 1e-3 + d for d in range(nd)])
    if case["correlate"] and nd >= 2:
        data[1] = data[0] * 0.5 + data[1] * 0.5 + rng.permutation(N) * 1e-7
    bins = [[b for b in level[:nd]] for level in case["bins"]]
    nb_ = 1
    for level in bins:
        for b in level:
            nb_ *= b
    if nb_ * 8 > N:
        return {"skip": "fewer_than_8_events_per_bin"}
    ab = AdaptiveBound(data, bins)
    bounds = ab.get_bounds()
    nb = 1
    for level in bins:
        for b in level:
            nb *= b
    ctx.check(len(bounds) == nb, "n_bins", "%d bounds for %d bins" % (len(bounds), nb))
    masks = ab.get_bool_mask(data)
    cover = np.sum(np.stack(masks).astype(int), axis=0)
    ctx.check(np.all(cover == 1), "every_event_in_exactly_one_bin", "%d events in no bin, %d in several (N=%d, bins=%s)" % (int(np.sum(cover == 0)), int(np.sum(cover > 1)), N, bins))
    pops = np.array([int(m.sum()) for m in masks])
    nsplit = sum(len(level) for level in bins)
    tol = 2 * nsplit + 2
    ctx.check(pops.max() - pops.min() <= tol + N / nb * 0.05, "near_equal_population", "populations %s for N=%d, %d bins" % (sorted(set(pops.tolist())), N, nb))
    parts = ab.split_data(data)
    ctx.check([p.shape[-1] for p in parts] == pops.tolist(), "split_data_consistent", "")
    _, datas = ab.get_bounds_data()
    ctx.check(sum(d.shape[-1] for d in datas) == N, "bounds_data_total", "%d" % sum(d.shape[-1] for d in datas))
    return {"nontrivial": nd >= 2, "classes": ["nd=%d" % nd, "levels=%d" % len(bins)]}


ab_st = st.integers(1, 3).flatmap(
    lambda nd: st.fixed_dictionaries(
        {
            "nd": st.just(nd),
            "N": st.integers(200, 1500),
            "seed": st.integers(0, 10**6),
            "correlate": st.booleans(),
            "bins": st.lists(st.lists(st.integers(1, 4), min_size=nd, max_size=nd), min_size=1, max_size=2),
        }
    )
)


# --------------------------------------------------------- (e) histograms
@oracle
def histograms(ctx, case):
    env.tfpwa()
    from tf_pwa.histogram import Hist1D, WeightedData

    rng = np.random.RandomState(case["seed"])
    n = case["n"]
    m = rng.uniform(0, 1, size=n)
    if case["cluster"]:
        m[: n // 2] = rng.uniform(0.4, 0.45, size=n // 2)
    w = rng.uniform(0.1, 2.0, size=n)
    if case["negative"]:
        w[rng.uniform(size=n) < 0.4] *= -1
    if case["cancel"]:
        # exactly cancelling signed weights inside one bin (sideband subtraction)
        m = np.concatenate([m, [0.953, 0.954, 0.955]])
        w = np.concatenate([w, [1.0, -0.5, -0.5]])
    lo, hi = case["range"]
    hi = max(hi, lo + 0.2)
    nb = case["bins"]
    h = Hist1D.histogram(m, bins=nb, range=(lo, hi), weights=w)
    inr = (m >= lo) & (m <= hi)
    ctx.check(abs(h.count.sum() - w[inr].sum()) <= 1e-9 * np.abs(w).sum(), "sum_of_weights", "%r vs %r" % (h.count.sum(), w[inr].sum()))
    edges = h.binning
    idx = np.clip(np.searchsorted(edges, m[inr], side="right") - 1, 0, nb - 1)
    occ = np.bincount(idx, minlength=nb)
    w2 = np.bincount(idx, weights=w[inr] ** 2, minlength=nb)
    populated = occ > 0
    ctx.close(h.error[populated] ** 2, w2[populated], "sum_of_squared_weights", rtol=1e-10, atol=1e-12, what="error^2 in populated bins")
    ctx.check(np.all(np.isinf(h.error[~populated])), "empty_bins_masked", "%s" % h.error[~populated][:3])
    ctx.check(int(h.ndf()) == int(populated.sum()), "ndf_counts_populated_bins", "%d vs %d" % (h.ndf(), populated.sum()))
    # unweighted
    h0 = Hist1D.histogram(m, bins=nb, range=(lo, hi))
    ctx.check(np.array_equal(h0.count, occ), "unweighted_counts", "")
    ctx.close(h0.error[populated] ** 2, occ[populated], "unweighted_error", rtol=1e-12, what="error^2")
    # algebra
    h2 = Hist1D.histogram(m[::2], bins=nb, range=(lo, hi), weights=w[::2], mask_error=0.0)
    h3 = Hist1D.histogram(m[1::2], bins=nb, range=(lo, hi), weights=w[1::2], mask_error=0.0)
    hs = h2 + h3
    ctx.close(hs.count, h.count, "add_counts", rtol=1e-9, atol=1e-9, what="(h2+h3).count")
    ctx.close(hs.error**2, w2, "add_errors_in_quadrature", rtol=1e-9, atol=1e-9, what="(h2+h3).error^2")
    hd = h2 - h3
    ctx.close(hd.count, h2.count - h3.count, "sub_counts", rtol=1e-12, atol=1e-12, what="sub")
    ctx.close(hd.error**2, w2, "sub_errors_in_quadrature", rtol=1e-9, atol=1e-9, what="sub error")
    k = case["scale"]
    hk = h2 * k
    ctx.close(hk.count, h2.count * k, "mul_counts", rtol=1e-12, what="mul")
    ctx.close(hk.error**2, (h2.error * k) ** 2, "mul_errors", rtol=1e-12, what="mul error")
    wd = WeightedData(m, bins=nb, range=(lo, hi), weights=w)
    ctx.close(wd.count, h.count, "weighted_data_counts", rtol=1e-12, atol=1e-12, what="WeightedData")
    ctx.close(wd.error**2, w2, "weighted_data_errors", rtol=1e-10, atol=1e-12, what="WeightedData error")
    return {"nontrivial": bool(case["negative"] or case["cancel"]), "classes": [c for c, b in (("negative_weights", case["negative"]), ("cancelling_bin", case["cancel"]), ("empty_bins", bool((~populated).any()))) if b]}


hist_st = st.fixed_dictionaries(
    {
        "seed": st.integers(0, 10**6),
        "n": st.integers(5, 400),
        "cluster": st.booleans(),
        "negative": st.booleans(),
        "cancel": st.booleans(),
        "range": st.tuples(st.floats(0.0, 0.3), st.floats(0.6, 1.0)),
        "bins": st.integers(2, 60),
        "scale": st.one_of(st.floats(0.1, 3.0), st.floats(-2.0, -0.1)),
    }
)


# ---------------------------------------------------------------- drivers
def run_ar(ctx):
    ctx.run_cases(ar_sampling, ar_st, ctx.n(48, 1500))


def run_toys(ctx):
    ctx.run_cases(toys, toy_st, ctx.n(8, 240))


def run_inverse(ctx):
    ctx.run_cases(linear_interp, lin_st, ctx.n(600, 20000))
    ctx.run_cases(bw_generator, bw_st, ctx.n(200, 6000))
    ctx.run_cases(interp_nd, nd_st, ctx.n(40, 1200))


def run_bins(ctx):
    ctx.run_cases(adaptive_bins, ab_st, ctx.n(240, 8000))
    ctx.run_cases(histograms, hist_st, ctx.n(1000, 30000))


SUBCHECKS = [
    Sub("pinned", run_pinned, shards=(1, 1), budget=(100, 300)),
    Sub("ar_sampling", run_ar, shards=(4, 8), budget=(200, 2400), weight=2),
    Sub("toys", run_toys, shards=(4, 8), budget=(250, 3000), weight=3),
    Sub("inverse_transform", run_inverse, shards=(4, 8), budget=(200, 2400), weight=2),
    Sub("bins_hist", run_bins, shards=(4, 4), budget=(200, 1800)),
]
