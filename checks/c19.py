"""C19 - a configuration determines the model deterministically and completely."""

import copy
import itertools
import json
import os
import zlib

import numpy as np
from hypothesis import strategies as st

from vlib import env, gen
from vlib.api import Sub, Violation, oracle

RULE = (
    "generated decay cards (3- and 4-body; 1-3 topologies; candidate lists of 1-3 resonances per slot with J in {0,1/2,1,3/2,2}, either parity, 15% with the wrong fermion number; per-decay options p_break / l_list, "
    "0-3 option mappings per entry at any position) are loaded in a history X, Y (same names, other quantum numbers), X, <equivalent forms of X>, in one process. Oracles: (a) an independent enumeration of the declared decay tree "
    "with an independent (l,s) selection rule gives the expected chain set, vertices, quantum numbers and partial waves; (b) the repeated load of X is identical incl. order of chains, parameter names, free parameters, fixed values, bounds; "
    "(c) alias keys (m0/g0/Par), $include files with local overrides, expanded candidate lists, split/moved option mappings and key-order permutations load to the same model; (d) as_config() -> load reproduces chains, J, P, spins. "
    "non-trivial: >= 2 chains expected and >= 1 candidate combination removed by the selection rules or a non-default option present; distinct = hash of the card"
)
ASSUMPTIONS = [
    "after a permutation of key order or an expansion of candidate lists the chain *set* and the parameter-name *set* are compared (which coupling is fixed as reference depends on the order by design)",
    "random initial values of free couplings are not compared, only names, free/fixed status and the values of fixed parameters",
    "the export does not carry l_list (not part of 'chains and quantum numbers'): partial waves are not compared after the export round trip",
]

FINAL = "BCDE"
SPINS = ["0", "1/2", "1", "3/2", "2"]


def fnum(j):
    return gen.fr(j).denominator == 2


# ------------------------------------------------------------------ card model
def slot_name(leaves):
    return "S" + "".join(str(i) for i in sorted(leaves))


def leaves_of(t):
    return [t] if isinstance(t, int) else leaves_of(t[0]) + leaves_of(t[1])


def node_name(t):
    return FINAL[t] if isinstance(t, int) else slot_name(leaves_of(t))


def entries_of(spec):
    """declared decay entries: core slot (or 'A') -> list of (outs, entry key); duplicates merged"""
    ent = {}

    def walk(t, core):
        outs = (node_name(t[0]), node_name(t[1]))
        lst = ent.setdefault(core, [])
        if outs not in lst:
            lst.append(outs)
        for sub in t:
            if not isinstance(sub, int):
                walk(sub, node_name(sub))

    for t in spec["trees"]:
        walk(t, "A")
    return ent


def ekey(core, outs):
    return "%s>%s,%s" % (core, outs[0], outs[1])


def particle_defs(spec, variant=None):
    """name -> {J, P, mass, width, float} incl. top 'A' and finals"""
    d = {"A": dict(spec["top"])}
    for i, f in enumerate(spec["finals"]):
        d[FINAL[i]] = dict(f)
    for slot, cands in spec["slots"].items():
        for c in cands:
            d[c["name"]] = {k: v for k, v in c.items() if k != "name"}
    if variant:
        for name, ch in variant.items():
            if name in d:
                d[name].update(ch)
    return d


def expected_model(spec, variant=None):
    ent = entries_of(spec)
    defs = particle_defs(spec, variant)
    cand = {s: [c["name"] for c in cs] for s, cs in spec["slots"].items()}
    opts = spec["options"]

    def expand(slot_or_final):
        return cand.get(slot_or_final, [slot_or_final])

    def chains_from(part, slot):
        """all chains (lists of vertices) starting with the decay of `part`, a member of `slot`"""
        out = []
        for outs in ent.get(slot, []):
            o = merged_opts(opts.get(ekey(slot, outs), []))
            for a in expand(outs[0]):
                for b in expand(outs[1]):
                    va = chains_from(a, outs[0]) if outs[0] in ent else [[]]
                    vb = chains_from(b, outs[1]) if outs[1] in ent else [[]]
                    for xa in va:
                        for xb in vb:
                            out.append([(part, (a, b), o)] + xa + xb)
        return out

    nfin = len(spec["finals"])
    all_chains = chains_from("A", "A")
    kept, removed = [], 0
    for ch in all_chains:
        verts = []
        ok = True
        for core, outs, o in ch:
            pa, pb, pc = defs[core], defs[outs[0]], defs[outs[1]]
            ls = gen.allowed_ls(pa["J"], pb["J"], pc["J"], pa["P"], pb["P"], pc["P"], bool(o.get("p_break", False)))
            if "l_list" in o:
                ls = [(l, s) for l, s in ls if l in o["l_list"]]
            if not ls:
                ok = False
                break
            verts.append((core, outs, tuple(sorted((int(l), float(s)) for l, s in ls)), bool(o.get("p_break", False))))
        if ok:
            kept.append(tuple(sorted(verts)))
        else:
            removed += 1
    return {"chains": kept, "removed": removed, "defs": defs}


def merged_opts(lst):
    o = {}
    for d in lst:
        o.update(d)
    return o


# ------------------------------------------------------------------ card writers
def pdict(p, alias=0, drop=()):
    """particle definition, optionally with the documented alias keys (bit mask)"""
    keymap = {"mass": "m0" if alias & 1 else "mass", "width": "g0" if alias & 2 else "width", "P": "Par" if alias & 4 else "P"}
    out = {}
    for k, v in p.items():
        if k in drop or v is None:
            continue
        if k == "J":
            v = gen.spin_out(v)
        out[keymap.get(k, k)] = v
    return out


def write_card(spec, form="slots", variant=None, seed=0, constrains=None):
    """returns (config dict, files to write {name: yaml-able dict})"""
    ent = entries_of(spec)
    defs = particle_defs(spec)  # base definitions (the variant is a local override)
    nfin = len(spec["finals"])
    rng = np.random.RandomState(seed % 2**31)
    files = {}
    alias = (lambda: int(rng.randint(1, 8))) if form == "alias" else (lambda: 0)
    particle = {"$top": {"A": pdict(defs["A"], alias())}, "$finals": {FINAL[i]: pdict(defs[FINAL[i]], alias()) for i in range(nfin)}}
    res_names = [c["name"] for s in spec["slots"].values() for c in s]
    res_defs = {n: dict(defs[n]) for n in res_names}
    if form == "include":
        # the included file carries the base definitions (some with a wrong mass that the card overrides)
        inc = {}
        local = {}
        for n in res_names:
            base = dict(res_defs[n])
            if rng.uniform() < 0.5:
                local[n] = {"mass": base["mass"]}
                base["mass"] = round(float(base["mass"]) + 0.37, 6)
            inc[n] = pdict(base)
        if variant:
            for n, ch in variant.items():
                local.setdefault(n, {}).update(pdict(ch))
        fname = "inc_%08x.yml" % (zlib.crc32(json.dumps(spec, sort_keys=True, default=str).encode()) & 0xFFFFFFFF)
        files[fname] = inc
        particle["$include"] = fname if rng.uniform() < 0.5 else [fname]
        for n, v in local.items():
            particle[n] = v
    else:
        for n in res_names:
            d = dict(res_defs[n])
            if variant and n in variant:
                d.update(variant[n])
            particle[n] = pdict(d, alias())
    decay = {}
    cand = {s: [c["name"] for c in cs] for s, cs in spec["slots"].items()}
    if form != "expanded":
        for s, names in cand.items():
            if not (len(names) == 1 and names[0] == s):
                particle[s] = list(names)

    def entry(core, outs):
        o = spec["options"].get(ekey(core, outs), [])
        if form == "opts_split":
            # every key as its own mapping (YAML flow list `[R, D, p_break: True, l_list: [0]]`), at random positions
            items = [{k: v} for d in o for k, v in d.items()]
            lst = list(outs)
            for it in items:
                lst.insert(int(rng.randint(0, len(lst) + 1)), it)
            return lst
        if not o:
            return list(outs)
        return list(outs) + [merged_opts(o)]

    for core, outlist in ent.items():
        if form == "expanded":
            cores = cand.get(core, [core])
            for c in cores:
                lst = decay.setdefault(c, [])
                for outs in outlist:
                    for a in cand.get(outs[0], [outs[0]]):
                        for b in cand.get(outs[1], [outs[1]]):
                            e = entry(core, outs)
                            e[0], e[1] = a, b
                            lst.append(e)
        else:
            lst = [entry(core, outs) for outs in outlist]
            # a single declared decay may be written without the outer list
            decay[core] = lst[0] if (len(lst) == 1 and rng.uniform() < 0.5) else lst
    if form == "perm":
        def shuffled(d):
            keys = list(d)
            rng.shuffle(keys)
            return {k: d[k] for k in keys}

        head = {k: particle[k] for k in particle if k.startswith("$")}
        rest = shuffled({k: v for k, v in particle.items() if not k.startswith("$")})
        particle = {**rest, **head} if rng.uniform() < 0.5 else {**head, **rest}
        decay = shuffled(decay)
        for k, v in list(decay.items()):
            if v and isinstance(v[0], list):
                v = list(v)
                rng.shuffle(v)
                decay[k] = v
    cfg = {"data": {"dat_order": [FINAL[i] for i in range(nfin)]}, "decay": decay, "particle": particle}
    if constrains:
        cfg["constrains"] = copy.deepcopy(constrains)
    return cfg, files


# ------------------------------------------------------------------ library side
def describe(config):
    dg = config.get_decay()
    chains = []
    for ch in dg:
        verts = []
        for d in ch:
            verts.append((str(d.core), tuple(str(o) for o in d.outs), tuple(sorted((int(l), float(s)) for l, s in d.get_ls_list())), bool(d.p_break)))
        chains.append(tuple(sorted(verts)))
    parts = {}
    for p in [dg.top] + list(dg.outs) + list(dg.resonances):
        parts[str(p)] = (float(gen.fr(p.J)), int(p.P), tuple(float(x) for x in p.spins))
    amp = config.get_amplitude()
    params = amp.get_params()
    names = list(params)
    free = list(amp.vm.trainable_vars)
    # (the reference coupling is fixed at its random initial value: only line-shape parameters are compared by value)
    fixed = {k: (float(v) if k.endswith(("_mass", "_width")) else "fixed") for k, v in params.items() if k not in free}
    masses = {str(p): (float(p.get_mass()) if p.get_mass() is not None else None) for p in dg.resonances}
    return {
        "chains": chains,
        "parts": parts,
        "names": names,
        "free": free,
        "fixed": fixed,
        "masses": masses,
        "bounds": {k: [None if x is None else float(x) for x in v] for k, v in dict(config.bound_dic).items()},
        "same": sorted(sorted(x) for x in amp.vm.same_list),
        "gauss": {k: [float(x) for x in v] for k, v in dict(config.gauss_constr_dic).items()},
    }


def load(cfg, files):
    import yaml
    from tf_pwa.config_loader import ConfigLoader

    for fn, content in files.items():
        with open(fn, "w") as f:
            yaml.safe_dump(content, f)
    return ConfigLoader(copy.deepcopy(cfg))


def compare_expected(ctx, desc, exp, what):
    got = sorted(desc["chains"])
    want = sorted(exp["chains"])
    gs, ws = set(c for c in got), set(c for c in want)
    strip = lambda cs: set(tuple((v[0], v[1]) for v in c) for c in cs)
    missing = strip(ws) - strip(gs)
    extra = strip(gs) - strip(ws)
    ctx.check(not missing, "allowed_chain_dropped", "%s: expected chains missing from the model: %s" % (what, sorted(missing)[:3]))
    ctx.check(not extra, "forbidden_chain_kept", "%s: chains that the selection rules / the declared decays do not allow: %s" % (what, sorted(extra)[:3]))
    ctx.check(len(got) == len(gs), "duplicate_chain", "%s: a chain appears twice" % what)
    ctx.check(gs == ws, "partial_waves_or_options", "%s: vertices (core, outs, (l,s) list, p_break) differ: model-only %s expected-only %s" % (what, sorted(gs - ws)[:2], sorted(ws - gs)[:2]))
    for n, (j, p, spins) in desc["parts"].items():
        d = exp["defs"][n]
        ctx.check(abs(j - float(gen.fr(d["J"]))) < 1e-9 and p == d["P"], "quantum_numbers", "%s: %s has J=%s P=%s, declared J=%s P=%s" % (what, n, j, p, d["J"], d["P"]))
    for n, m in desc["masses"].items():
        ctx.check(m is not None and abs(m - float(exp["defs"][n]["mass"])) < 1e-12, "declared_mass", "%s: %s mass %r, declared %r" % (what, n, m, exp["defs"][n]["mass"]))


def compare_exact(ctx, a, b, what):
    for key in ("chains", "parts", "names", "free", "fixed", "masses", "bounds", "same", "gauss"):
        ctx.check(a[key] == b[key], "same_model:" + key, "%s: %s differs: %s vs %s" % (what, key, _diff(a[key], b[key]), ""))


def compare_sets(ctx, a, b, what):
    ctx.check(set(a["chains"]) == set(b["chains"]) and len(a["chains"]) == len(b["chains"]), "same_model:chain_set", "%s: chain sets differ: %s" % (what, _diff(sorted(a["chains"]), sorted(b["chains"]))))
    ctx.check(a["parts"] == b["parts"], "same_model:parts", "%s: particles differ: %s" % (what, _diff(a["parts"], b["parts"])))
    ctx.check(set(a["names"]) == set(b["names"]), "same_model:name_set", "%s: parameter names differ: %s" % (what, sorted(set(a["names"]) ^ set(b["names"]))[:6]))
    ctx.check(a["masses"] == b["masses"], "same_model:masses", "%s: masses differ" % what)


def _diff(a, b):
    if isinstance(a, dict) and isinstance(b, dict):
        ks = [k for k in set(a) | set(b) if a.get(k) != b.get(k)]
        return {k: (a.get(k), b.get(k)) for k in sorted(ks)[:4]}
    if isinstance(a, list) and isinstance(b, list):
        for i, (x, y) in enumerate(zip(a, b)):
            if x != y:
                return "at %d: %s vs %s" % (i, str(x)[:300], str(y)[:300])
        return "lengths %d vs %d" % (len(a), len(b))
    return "%s vs %s" % (str(a)[:300], str(b)[:300])


@oracle
def card_history(ctx, case):
    env.tfpwa()
    spec = case["spec"]
    variant = case["variant"]
    expX = expected_model(spec)
    expY = expected_model(spec, variant)
    cls = ["nfinal=%d" % len(spec["finals"])]

    def try_load(form, var, exp, what, seed=0):
        cfg, files = write_card(spec, form, var, seed=case["seed"] + seed, constrains=None if var else constrains)
        if not exp["chains"]:
            # no chain survives: the loader reports that by raising
            try:
                c = load(cfg, files)
            except RuntimeError:
                return None
            desc = describe(c)
            ctx.check(False, "forbidden_chain_kept", "%s: no chain is allowed but the model has %s" % (what, desc["chains"][:2]))
        c = load(cfg, files)
        return describe(c), c

    base_form = case["base_form"]
    constrains = None
    r = try_load(base_form, None, expX, "X first load")
    if r is None:
        return {"skip": "no_allowed_chain", "classes": ["no_allowed_chain"]}
    dX, cX = r
    compare_expected(ctx, dX, expX, "card X (%s form)" % base_form)
    if case.get("constraint_picks"):
        # a constrains section over the parameter names of X: fixed, bounded, tied, Gaussian
        free = sorted(dX["free"])
        picks = case["constraint_picks"]
        cons = {}
        used = set()
        rs = [n for n in free if n.endswith("r")]
        for kind, i, j, a, b in picks:
            if not rs:
                break
            n = rs[i % len(rs)]
            if n in used:
                continue
            if kind == "fix":
                cons.setdefault("fix_var", {})[n] = round(0.5 + a, 6)
                used.add(n)
            elif kind == "range":
                cons.setdefault("var_range", {})[n] = [round(a, 6), round(a + 1.0 + b, 6)]
                used.add(n)
            elif kind == "gauss":
                cons.setdefault("gauss_constr", {})[n] = [round(1.0 + a, 6), round(0.1 + b, 6)]
                used.add(n)
            elif kind == "equal":
                m = rs[j % len(rs)]
                if m != n and m not in used:
                    cons.setdefault("var_equal", []).append([n, m])
                    used |= {n, m}
        if cons:
            constrains = cons
            cls.append("with_constraints")
            rc = try_load(base_form, None, expX, "X with constraints")
            dX, cX = rc
            compare_expected(ctx, dX, expX, "card X with a constrains section")
            for n, v in cons.get("fix_var", {}).items():
                ctx.check(n not in dX["free"] and n in dX["names"], "constraint_applied", "fix_var %s: still free or missing" % n)
            for n, (lo, hi) in cons.get("var_range", {}).items():
                ctx.check(dX["bounds"].get(n) == [lo, hi], "constraint_applied", "var_range %s: bounds %s, configured %s" % (n, dX["bounds"].get(n), [lo, hi]))
            for n, (mu, sg) in cons.get("gauss_constr", {}).items():
                ctx.check(dX["gauss"].get(n) == [mu, sg], "constraint_applied", "gauss_constr %s: %s, configured %s" % (n, dX["gauss"].get(n), [mu, sg]))
            for a_, b_ in cons.get("var_equal", []):
                ctx.check(any(a_ in grp and b_ in grp for grp in dX["same"]) and not (a_ in dX["free"] and b_ in dX["free"]), "constraint_applied", "var_equal %s = %s: tie classes %s" % (a_, b_, dX["same"][:3]))
    ry = try_load(base_form, variant, expY, "Y", seed=0)
    if ry is not None:
        compare_expected(ctx, ry[0], expY, "card Y = X with %s (loaded after X, same names)" % (variant,))
        cls.append("variant_loaded")
    dX2, _ = try_load(base_form, None, expX, "X again")
    compare_exact(ctx, dX, dX2, "second load of X (after loading Y)")
    compare_expected(ctx, dX2, expX, "card X loaded again after Y")
    for k, form in enumerate(case["forms"]):
        dF, _ = try_load(form, None, expX, form, seed=k + 1)
        what = "X in '%s' form vs X in '%s' form" % (form, base_form)
        if form in ("perm", "expanded") or base_form in ("perm", "expanded"):
            compare_sets(ctx, dX, dF, what)
        else:
            compare_exact(ctx, dX, dF, what)
        compare_expected(ctx, dF, expX, "card X in '%s' form" % form)
        cls.append("form=" + form)
    # export round trip (before and after the amplitude was built)
    from tf_pwa.config_loader import ConfigLoader

    cfgX, filesX = write_card(spec, base_form, None, seed=case["seed"], constrains=constrains)
    cfresh = load(cfgX, filesX)
    for tag, conf in (("fresh", cfresh), ("after get_amplitude", cX)):
        ex = conf.get_decay().as_config()
        ex = json.loads(json.dumps(ex, default=str)) if case["export_json"] else copy.deepcopy(ex)
        ex["data"] = {"dat_order": list(cfgX["data"]["dat_order"])}
        dE = ConfigLoader(ex)
        dgE = dE.get_decay()
        chE = sorted(tuple(sorted((str(d.core), tuple(str(o) for o in d.outs), bool(d.p_break)) for d in ch)) for ch in dgE)
        chX = sorted(tuple((v[0], v[1], v[3]) for v in c) for c in dX["chains"])
        ctx.check(chE == chX, "export_chains", "export (%s) -> load: chains %s vs %s" % (tag, _diff(chE, chX), ""))
        partsE = {str(p): (float(gen.fr(p.J)), int(p.P), tuple(float(x) for x in p.spins)) for p in [dgE.top] + list(dgE.outs) + list(dgE.resonances)}
        ctx.check(partsE == dX["parts"], "export_quantum_numbers", "export (%s) -> load: %s" % (tag, _diff(partsE, dX["parts"])))
    cls.append("export")
    for fn in filesX:
        if os.path.exists(fn):
            os.remove(fn)
    nopt = sum(1 for v in spec["options"].values() if v)
    if nopt:
        cls.append("with_options")
    if expX["removed"]:
        cls.append("chains_removed")
    cls.append("chains=%d" % min(len(expX["chains"]), 6))
    return {"nontrivial": len(expX["chains"]) >= 2 and (expX["removed"] > 0 or nopt > 0), "classes": cls}


# ------------------------------------------------------------------ generator
@st.composite
def card_spec(draw):
    nfin = draw(st.sampled_from([3, 3, 4]))
    fspins = [draw(st.sampled_from(["0", "0", "1/2", "1"])) for _ in range(nfin)]
    nhalf = sum(1 for s in fspins if fnum(s))
    top_half = nhalf % 2 == 1
    topJ = draw(st.sampled_from(["1/2", "3/2"] if top_half else ["0", "1", "2"]))
    masses = [draw(st.sampled_from([0.14, 0.3, 0.5, 0.94])) for _ in range(nfin)]
    top = {"J": topJ, "P": draw(st.sampled_from([1, -1])), "mass": round(sum(masses) + draw(st.floats(1.0, 3.0)), 4)}
    finals = [{"J": s, "P": draw(st.sampled_from([1, -1])), "mass": m} for s, m in zip(fspins, masses)]
    if nfin == 3:
        pool = [[[0, 1], 2], [[0, 2], 1], [[1, 2], 0]]
    else:
        perm = draw(st.permutations([0, 1, 2, 3]))
        i, j, k, l = perm
        pool = [[[[i, j], k], l], [[i, j], [k, l]], [[[i, j], l], k], [[[k, l], i], j]]
    trees = draw(st.lists(st.sampled_from(pool), min_size=1, max_size=3, unique_by=lambda t: json.dumps(t)))
    slots = {}
    counter = [0]

    def visit(t):
        if isinstance(t, int):
            return
        name = slot_name(leaves_of(t))
        if name not in slots:
            lv = leaves_of(t)
            half = sum(1 for i in lv if fnum(fspins[i])) % 2 == 1
            ncand = draw(st.sampled_from([1, 1, 2, 3]))
            cands = []
            for c in range(ncand):
                consistent = draw(st.integers(0, 99)) >= 15
                want_half = half if consistent else not half
                J = draw(st.sampled_from(["1/2", "3/2"] if want_half else ["0", "1", "2"]))
                counter[0] += 1
                cands.append(
                    {
                        "name": "R%d_%s" % (counter[0], name[1:]),
                        "J": J,
                        "P": draw(st.sampled_from([1, -1])),
                        "mass": round(sum(masses[i] for i in lv) + draw(st.floats(0.1, 0.9)), 4),
                        "width": draw(st.sampled_from([0.05, 0.1, 0.2])),
                    }
                )
            if ncand == 1 and draw(st.booleans()):
                # no candidate list: the particle is used under its own name
                cands[0]["name"] = name
            slots[name] = cands
        visit(t[0])
        visit(t[1])

    for t in trees:
        visit(t[0])
        visit(t[1])
    spec = {"top": top, "finals": finals, "trees": [json.loads(json.dumps(t)) for t in trees], "slots": slots, "options": {}}
    for core, outlist in entries_of(spec).items():
        for outs in outlist:
            n = draw(st.sampled_from([0, 0, 1, 1, 2, 3]))
            o = []
            kinds = draw(st.lists(st.sampled_from(["p_break", "p_break", "l_list", "has_barrier_factor", "curve_style"]), min_size=n, max_size=n))
            for kind in dict.fromkeys(kinds):  # every option key once per entry
                if kind == "p_break":
                    o.append({"p_break": draw(st.booleans())})
                elif kind == "l_list":
                    o.append({"l_list": sorted(draw(st.sets(st.integers(0, 3), min_size=1, max_size=3)))})
                elif kind == "has_barrier_factor":
                    o.append({"has_barrier_factor": draw(st.booleans())})
                else:
                    o.append({"curve_style": draw(st.sampled_from(["r-", "g--"]))})
            if o:
                spec["options"][ekey(core, outs)] = o
    return spec


@st.composite
def case_st(draw):
    spec = draw(card_spec())
    names = [c["name"] for s in spec["slots"].values() for c in s]
    target = draw(st.sampled_from(names))
    variant = {target: {"J": draw(st.sampled_from(SPINS)), "P": draw(st.sampled_from([1, -1]))}}
    forms = draw(st.lists(st.sampled_from(["alias", "include", "expanded", "opts_split", "perm", "slots"]), min_size=2, max_size=3, unique=True))
    return {
        "spec": spec,
        "variant": variant,
        "base_form": draw(st.sampled_from(["slots", "slots", "include", "opts_split"])),
        "forms": forms,
        "seed": draw(st.integers(0, 10**6)),
        "export_json": draw(st.booleans()),
        "constraint_picks": draw(st.lists(st.tuples(st.sampled_from(["fix", "range", "gauss", "equal"]), st.integers(0, 30), st.integers(0, 30), st.floats(0, 1), st.floats(0, 1)), max_size=3)),
    }


def run_cards(ctx):
    ctx.run_cases(card_history, case_st(), ctx.n(1200, 40000))


SUBCHECKS = [
    Sub("cards", run_cards, shards=(12, 16), budget=(280, 3000)),
]
