"""C12 - rotation-group functions (Wigner D, Clebsch-Gordan, SU(2) angles)."""

import itertools
import math
from fractions import Fraction as F

import numpy as np
from hypothesis import strategies as st

from vlib import env, refmath
from vlib.api import Sub, oracle

RULE = (
    "finite parts enumerated exhaustively: all (2j<=8, m, m') small-d entries on an angle grid incl. 0, pi, +-pi/2, 2pi; "
    "all CG tuples (j1,m1,j2,m2,J,M=m1+m2) with j1,j2 in {0,1/2,...,4} and J in the triangle; every entry of cg_table.json; "
    "random parts: Euler-angle triples (Hypothesis) for unitarity and the group law, SL(2,C) words of rotations and z-boosts "
    "closed to a pure rotation by polar decomposition. non-trivial = j>=1/2 with beta not in {0} for D-functions, all j>0 for CG, "
    "words containing at least one boost for SU(2); distinct = hash of the tuple/case"
)
ASSUMPTIONS = [
    "reference: Wigner's formula and the Racah formula evaluated with exact integer factorials (fractions), mpmath at 40 digits for a sub-grid",
    "D-matrix convention: D_matrix_conj(a,b,g) = exp(i m a) d^j_{m n}(b) exp(i n g), rows/columns m=-j..j ascending (as documented)",
    "SU2M convention probed on the unchanged tree: U = Rz(gamma_ret) Ry(beta) Rz(alpha_ret) for get_euler_angle() = (alpha_ret, beta, gamma_ret)",
    "cg_table domain = integer spins with valid triangle and |m|<=j; half-integer look-ups are outside 'where it is defined'",
]
ALL_EXHAUSTIVE = False

GRID = [0.0, math.pi, -math.pi, math.pi / 2, -math.pi / 2, 2 * math.pi, 1e-9, math.pi - 1e-9, 0.3, 1.1, 2.7, -0.8, 4.0, 5.9]


# ---------------------------------------------------------------- small d
def small_d_cases():
    for j2 in range(0, 9):
        yield {"j2": j2}


@oracle
def small_d_exact(ctx, case):
    env.tfpwa()
    from tf_pwa.dfun import small_d_matrix

    j2 = case["j2"]
    betas = np.array(case.get("betas", GRID), dtype=float)
    lib = np.asarray(small_d_matrix(betas, j2))
    ctx.check(lib.shape == (len(betas), j2 + 1, j2 + 1), "shape", str(lib.shape))
    ms = list(range(-j2, j2 + 1, 2))
    n = 0
    for a, m in enumerate(ms):
        for b, mp_ in enumerate(ms):
            ref = refmath.wigner_small_d(j2, m, mp_, betas)
            ctx.close(lib[:, a, b], ref, "small_d", rtol=0, atol=3e-13, what="d^{%d/2}_{%d/2,%d/2}" % (j2, m, mp_))
            n += 1
    # high-precision spot check of the reference itself and the library
    import mpmath as mp

    for bi in (0, 1, 3, 8, 10):
        for a, m in enumerate(ms):
            for b, mp_ in enumerate(ms):
                ref = float(refmath.wigner_small_d_mp(j2, m, mp_, betas[bi]))
                ctx.close(lib[bi, a, b], ref, "small_d_mp", rtol=0, atol=3e-13, what="mp d^{%d/2}_{%d,%d}(%g)" % (j2, m, mp_, betas[bi]))
    return {"nontrivial": j2 >= 1, "classes": ["2j=%d" % j2], "entries": n * len(betas)}


angle_st = st.one_of(st.floats(-2 * math.pi, 2 * math.pi), st.sampled_from([0.0, math.pi, -math.pi, math.pi / 2, 2 * math.pi, 1e-7, math.pi - 1e-7]))
euler_st = st.tuples(angle_st, st.one_of(st.floats(0, math.pi), st.sampled_from([0.0, math.pi, math.pi / 2, 1e-8])), angle_st)


def _np_su2(a, b, g):
    return refmath.su2_rz(a) @ refmath.su2_ry(b) @ refmath.su2_rz(g)


def _np_euler(U):
    """Euler angles (a,b,g) with U = +-Rz(a)Ry(b)Rz(g), own extraction."""
    b = 2 * math.atan2(abs(U[1, 0]), abs(U[0, 0]))
    if abs(U[0, 0]) > 1e-8 and abs(U[1, 0]) > 1e-8:
        apg = -2 * np.angle(U[0, 0])  # U00 = exp(-i(a+g)/2) c
        amg = 2 * np.angle(U[1, 0])  # U10 = exp(i(a-g)/2) s
    elif abs(U[1, 0]) <= 1e-8:
        apg = -2 * np.angle(U[0, 0])
        amg = 0.0
    else:
        apg = 0.0
        amg = 2 * np.angle(U[1, 0])
    return (apg + amg) / 2, b, (apg - amg) / 2


def _lib_D(a, b, g, j2):
    from tf_pwa.dfun import D_matrix_conj

    d = np.asarray(D_matrix_conj(np.array([a]), np.array([b]), np.array([g]), j2))[0]
    return np.conj(d)


@oracle
def d_matrix_laws(ctx, case):
    env.tfpwa()
    j2 = case["j2"]
    a1, b1, g1 = case["e1"]
    a2, b2, g2 = case["e2"]
    D1 = _lib_D(a1, b1, g1, j2)
    D2 = _lib_D(a2, b2, g2, j2)
    n = j2 + 1
    ctx.close(D1 @ D1.conj().T, np.eye(n), "unitary", rtol=0, atol=2e-12, what="D D^+")
    ref1 = refmath.wigner_D(j2, a1, b1, g1)
    ctx.close(D1, ref1, "D_formula", rtol=0, atol=2e-12, what="D vs exp(-ima) d exp(-ing)")
    U = _np_su2(a1, b1, g1) @ _np_su2(a2, b2, g2)
    a, b, g = _np_euler(U)
    # harness self-check of its own extraction (not a library assertion)
    V = _np_su2(a, b, g)
    if min(np.abs(V - U).max(), np.abs(V + U).max()) > 1e-9:
        return {"skip": "own_euler_extraction_ill_conditioned"}
    D12 = _lib_D(a, b, g, j2)
    prod = D1 @ D2
    e_plus = np.abs(prod - D12).max()
    e_minus = np.abs(prod + D12).max()
    if j2 % 2 == 0:
        ctx.check(e_plus < 5e-8 * (1 + j2), "group_law", "integer j: |D1D2 - D12| = %.3e" % e_plus)
    else:
        ctx.check(min(e_plus, e_minus) < 5e-8 * (1 + j2), "group_law", "half-integer j: min |D1D2 -+ D12| = %.3e" % min(e_plus, e_minus))
    nt = j2 >= 1 and abs(b1) > 1e-6 and abs(b2) > 1e-6
    cls = ["2j=%d" % j2]
    if b1 in (0.0, math.pi) or b2 in (0.0, math.pi):
        cls.append("beta_at_0_or_pi")
    return {"nontrivial": nt, "classes": cls}


dlaw_st = st.fixed_dictionaries({"j2": st.integers(0, 8), "e1": euler_st, "e2": euler_st})


# --------------------------------------------------------------------- CG
def half_range(jmax2):
    return [F(i, 2) for i in range(0, jmax2 + 1)]


def cg_tuples(jmax2=8):
    for j1 in half_range(jmax2):
        for j2 in half_range(jmax2):
            yield {"j1": [j1.numerator, j1.denominator], "j2": [j2.numerator, j2.denominator]}


@oracle
def cg_exact(ctx, case):
    env.plain_tfpwa()
    from tf_pwa.cg import cg_coef

    j1 = F(*case["j1"])
    j2 = F(*case["j2"])
    n = 0
    nz = 0
    Js = []
    J = abs(j1 - j2)
    while J <= j1 + j2:
        Js.append(J)
        J += 1
    # also one J outside the triangle on each side: must vanish
    extra = [j1 + j2 + 1]
    if abs(j1 - j2) >= 1:
        extra.append(abs(j1 - j2) - 1)
    for J in Js + extra:
        for k1 in range(int(2 * j1) + 1):
            m1 = -j1 + k1
            for k2 in range(int(2 * j2) + 1):
                m2 = -j2 + k2
                M = m1 + m2
                if abs(M) > J:
                    continue
                lib = cg_coef(float(j1), float(j2), float(m1), float(m2), float(J), float(M))
                ref = refmath.cg_float(j1, m1, j2, m2, J, M)
                n += 1
                nz += ref != 0
                ctx.check(abs(lib - ref) < 1e-12, "cg_value", "<%s %s %s %s|%s %s> lib=%r exact=%r" % (j1, m1, j2, m2, J, M, lib, ref))
    return {"nontrivial": j1 > 0 and j2 > 0, "classes": ["half_integer" if (j1.denominator == 2 or j2.denominator == 2) else "integer"], "tuples": n, "nonzero": int(nz)}


def table_cases():
    env.plain_tfpwa()
    from tf_pwa.cg import cg_table

    for j1 in sorted(cg_table):
        for j2 in sorted(cg_table[j1]):
            yield {"j1": j1, "j2": j2}


@oracle
def cg_table_entries(ctx, case):
    env.plain_tfpwa()
    from tf_pwa.cg import cg_table, get_cg_coef

    j1s, j2s = case["j1"], case["j2"]
    sub = cg_table[j1s][j2s]
    n = 0
    j1, j2 = F(j1s), F(j2s)
    for m1s, d1 in sub.items():
        for m2s, d2 in d1.items():
            for Js, d3 in d2.items():
                for Ms, v in d3.items():
                    ref = refmath.cg_float(j1, F(m1s), j2, F(m2s), F(Js), F(Ms))
                    n += 1
                    ctx.check(abs(v - ref) < 1e-12, "table_entry", "table[%s][%s][%s][%s][%s][%s]=%r exact=%r" % (j1s, j2s, m1s, m2s, Js, Ms, v, ref))
    # lookup function (uses the symmetry for j1<j2) on every valid integer tuple
    for a, b in ((int(j1), int(j2)), (int(j2), int(j1))):
        for J in range(abs(a - b), a + b + 1):
            for m1 in range(-a, a + 1):
                for m2 in range(-b, b + 1):
                    if abs(m1 + m2) > J:
                        continue
                    lib = get_cg_coef(a, b, m1, m2, J, m1 + m2)
                    ref = refmath.cg_float(a, m1, b, m2, J, m1 + m2)
                    n += 1
                    ctx.check(abs(lib - ref) < 1e-12, "table_lookup", "get_cg_coef(%d,%d,%d,%d,%d,%d)=%r exact=%r" % (a, b, m1, m2, J, m1 + m2, lib, ref))
    return {"nontrivial": True, "classes": ["table"], "entries": n}


# ------------------------------------------------------------------ SU(2)
word_el = st.one_of(
    st.tuples(st.just("rz"), st.floats(-2 * math.pi, 2 * math.pi)),
    st.tuples(st.just("ry"), st.floats(0, math.pi)),
    st.tuples(st.just("bz"), st.floats(-2.0, 2.0)),
    st.tuples(st.just("rz"), st.sampled_from([0.0, math.pi, -math.pi / 2])),
    st.tuples(st.just("ry"), st.sampled_from([0.0, math.pi, math.pi / 2])),
)
word_st = st.fixed_dictionaries({"word": st.lists(word_el, min_size=1, max_size=7), "n_batch": st.integers(1, 3), "close_with_inv": st.booleans()})


def _lib_el(kind, x, SU2M, tf, nb):
    t = tf.constant([x] * nb, dtype=tf.float64)
    if kind == "rz":
        return SU2M.Rotation_z(t)
    if kind == "ry":
        return SU2M.Rotation_y(t)
    return SU2M.Boost_z(t)


def _np_el(kind, x):
    if kind == "rz":
        return refmath.su2_rz(x)
    if kind == "ry":
        return refmath.su2_ry(x)
    # library convention: Boost_z(omega) = diag(exp(-omega/2), exp(omega/2))
    return np.array([[np.exp(-x / 2), 0], [0, np.exp(x / 2)]], dtype=complex)


@oracle
def su2_euler_roundtrip(ctx, case):
    tf = env.tfpwa()
    from tf_pwa.angle import SU2M

    nb = case["n_batch"]
    word = [tuple(w) for w in case["word"]]
    # numpy side: A = product; polar decomposition A = U H; close the loop with
    # H^-1 = Rz(p)Ry(t) Bz(-w) Ry(-t)Rz(-p)
    A = np.eye(2, dtype=complex)
    for k, x in word:
        A = A @ _np_el(k, x)
    Hm = A.conj().T @ A  # = H^2, hermitian positive
    w, v = np.linalg.eigh(Hm)
    has_boost = any(k == "bz" and abs(x) > 1e-6 for k, x in word)
    closing = []
    if w[1] / w[0] > 1 + 1e-9:
        # H^2 = exp(-omega n.sigma) in the library's boost convention
        nvec = np.array([np.real(np.trace(Hm @ s)) for s in (np.array([[0, 1], [1, 0]]), np.array([[0, -1j], [1j, 0]]), np.array([[1, 0], [0, -1]]))])
        omega2 = math.log(w[1] / w[0]) / 2.0  # 2*omega/2
        nn = -nvec / np.linalg.norm(nvec)  # direction with diag(e^-w/2, e^w/2) convention: H^2 ~ cosh - n.sigma sinh
        theta = math.acos(max(-1.0, min(1.0, nn[2])))
        phi = math.atan2(nn[1], nn[0])
        omega = omega2  # H = exp(-omega/2 n.sigma) => H^2 = exp(-omega n.sigma), eigen ratio e^{2 omega}
        closing = [("rz", phi), ("ry", theta), ("bz", -omega), ("ry", -theta), ("rz", -phi)]
    full = word + closing
    U = np.eye(2, dtype=complex)
    for k, x in full:
        U = U @ _np_el(k, x)
    unit_err = np.abs(U.conj().T @ U - np.eye(2)).max()
    if unit_err > 1e-9:
        return {"skip": "closing_not_unitary_numerically"}
    def lib_prod(seq):
        P = None
        for k, x in seq:
            e = _lib_el(k, x, SU2M, tf, nb)
            P = e if P is None else P * e
        return P

    if closing and case.get("close_with_inv"):
        # the way the library composes alignment rotations: A * inv(H), with
        # H = Rz(p)Ry(t) Bz(+w) Ry(-t)Rz(-p) built forward and inverted by inv()
        Hseq = [(k, -x if k == "bz" else x) for k, x in closing]
        M = lib_prod(word) * lib_prod(Hseq).inv()
    else:
        M = lib_prod(full)
    # inverse law on the (generally non-unitary) rotation-boost word itself
    Aw = lib_prod(word)
    Ai = Aw * Aw.inv()
    Xa = np.array([[np.asarray(Ai["x"][i][j]) for j in range(2)] for i in range(2)])
    ctx.close(Xa[:, :, 0], np.eye(2), "su2_inverse", rtol=0, atol=1e-8 * max(1.0, np.abs(A).max() ** 2), what="A*A.inv() for the boost-containing word")
    # library product equals numpy product
    X = np.array([[np.asarray(M["x"][i][j]) for j in range(2)] for i in range(2)])  # (2,2,nb)
    for b in range(nb):
        ctx.close(X[:, :, b], U, "su2_product", rtol=0, atol=1e-9 * max(1.0, np.abs(A).max() ** 2), what="SU2M product vs numpy")
    # inverse law
    Mi = M * M.inv()
    Xi = np.array([[np.asarray(Mi["x"][i][j]) for j in range(2)] for i in range(2)])
    ctx.close(Xi[:, :, 0], np.eye(2), "su2_inverse", rtol=0, atol=1e-8 * max(1.0, np.abs(A).max() ** 2), what="M*M.inv()")
    ang = M.get_euler_angle()
    al = np.asarray(ang["alpha"])
    be = np.asarray(ang["beta"])
    ga = np.asarray(ang["gamma"])
    ctx.check(np.all(np.isfinite(al)) and np.all(np.isfinite(be)) and np.all(np.isfinite(ga)), "euler_finite", "%s %s %s" % (al, be, ga))
    ctx.check(np.all(be >= 0) and np.all(be <= math.pi + 1e-12), "beta_range", str(be))
    scale = max(1.0, np.abs(A).max() ** 2)
    for b in range(nb):
        V = _np_su2(float(ga[b]), float(be[b]), float(al[b]))
        err = min(np.abs(V - U).max(), np.abs(V + U).max())
        ctx.check(err < 2e-7 * scale, "euler_reproduces_rotation", "rebuild error %.3e for word %s (alpha,beta,gamma)=(%r,%r,%r)" % (err, full, al[b], be[b], ga[b]))
    cb = abs(U[0, 0])
    cls = []
    if cb > 1 - 1e-9:
        cls.append("beta~0")
    if cb < 1e-9:
        cls.append("beta~pi")
    if has_boost:
        cls.append("with_boost")
    if closing and case.get("close_with_inv"):
        cls.append("closed_by_inv_of_boost_word")
    return {"nontrivial": has_boost and len(word) >= 2, "classes": cls}


# ---------------------------------------------------------------- drivers
def run_small_d(ctx):
    ctx.run_enum(small_d_exact, small_d_cases(), name="small_d_all_2j<=8")
    rng = np.random.RandomState(ctx.seed + 17 * ctx.shard)
    nrep = 1 if ctx.quick else 20
    extra = [{"j2": j2, "betas": [float(x) for x in rng.uniform(-2 * math.pi, 2 * math.pi, size=14)]} for j2 in range(9) for _ in range(nrep)]
    ctx.run_enum(small_d_exact, extra, name="small_d_random_angles", complete_flag=False)


def run_dlaws(ctx):
    ctx.run_cases(d_matrix_laws, dlaw_st, ctx.n(1800, 180000))


def run_cg(ctx):
    ctx.run_enum(cg_exact, cg_tuples(8), name="cg_all_j<=4")


def run_table(ctx):
    ctx.run_enum(cg_table_entries, table_cases(), name="cg_table_all_entries")


def run_su2(ctx):
    ctx.run_cases(su2_euler_roundtrip, word_st, ctx.n(1500, 60000))


SUBCHECKS = [
    Sub("small_d", run_small_d, shards=(3, 3), budget=(150, 1200)),
    Sub("d_laws", run_dlaws, shards=(4, 6), budget=(150, 2400), weight=2),
    Sub("cg", run_cg, shards=(4, 4), budget=(200, 1200), weight=2),
    Sub("cg_table", run_table, shards=(1, 1), budget=(150, 600)),
    Sub("su2", run_su2, shards=(4, 6), budget=(150, 2400), weight=2),
]
