"""C01 - the decay-rate density is independent of the observer's frame."""

import math

import numpy as np
from hypothesis import strategies as st

from vlib import cards, env, gen, kin
from vlib.api import Sub, oracle

RULE = (
    "case = generated 3- or 4-body decay structure (final spins 0, 1/2, 1; resonance spins up to 5/2; 1-3 interfering chains over all topologies; parity conserving or weak top decay), "
    "couplings assigned by name from drawn numbers, 24 events from the harness's own sequential generator (optionally with a moving parent), one common rotation (Euler angles) and boost (|beta| up to 0.95); "
    "relations: density(Lambda p) = density(p); density(-p) = density(p) for 3-body and for parity-conserving 4-body; density(swap identical) = density; finite and >= 0. "
    "non-trivial = some spin > 0, (>=2 chains or a final-state spin) and a transformation with angle > 0.1 rad or |beta| > 0.05; distinct = hash of the case"
)
ASSUMPTIONS = [
    "relative tolerance 2e-7 on the density (observed agreement 1e-14..1e-9; alignment angles are ill-conditioned near collinear configurations, events are generated away from them)",
    "unpolarised parent: all helicities of the top particle are summed (no `spins` restriction)",
    "parity inversion is asserted for every 3-body structure and for 4-body structures in which every vertex conserves parity",
]
RTOL = 2e-7


def lorentz(p, euler, beta):
    R = kin.euler_matrix(*euler)
    b = np.asarray(beta, dtype=float)
    return [kin.boost(kin.rotate(x, R), b) for x in p]


def load_model(spec, pv):
    cfg, nm = gen.build(spec)
    config = cards.load(cfg)
    amp = config.get_amplitude()
    cards.assign_params(amp, pv)
    return config, amp, nm


def nontrivial(spec, euler, beta):
    spin = any(gen.fr(f["J"]) > 0 for f in spec["finals"]) or gen.fr(spec["top"]["J"]) > 0 or any(gen.fr(r["J"]) > 0 for c in spec["chains"] for r in c["res"].values())
    rich = len(spec["chains"]) >= 2 or any(gen.fr(f["J"]) > 0 for f in spec["finals"])
    big = max(abs(euler[0]), abs(euler[1]), abs(euler[2])) > 0.1 or np.linalg.norm(beta) > 0.05
    return bool(spin and rich and big)


@oracle
def frame_invariance(ctx, case):
    spec = case["spec"]
    if not spec["chains"]:
        return {"skip": "no_allowed_chain_generated"}
    config, amp, nm = load_model(spec, case["pv"])
    nch = len(amp.decay_group.chains)
    ctx.check(nch >= 1, "chains_kept", "no chain kept for an allowed structure")
    p = gen.events(spec, case["ev_seed"], case["n_ev"], moving=case.get("parent_beta"))
    d0, _ = cards.density(config, amp, p)
    ctx.check(np.all(np.isfinite(d0)) and np.all(d0 >= 0), "finite_nonnegative", "density %s" % d0[:5])
    scale = float(np.median(d0))
    if scale <= 0:
        return {"skip": "zero_density"}
    p1 = lorentz(p, case["euler"], case["beta"])
    d1, _ = cards.density(config, amp, p1)
    ctx.close(d1, d0, "rotation_boost_invariance", rtol=RTOL, atol=1e-9 * scale, what="density after rotation %s and boost %s" % (case["euler"], case["beta"]))
    cls = gen.describe(spec)
    n = len(spec["finals"])
    if n == 3 or spec.get("parity_conserving"):
        dp, _ = cards.density(config, amp, [kin.parity(x) for x in p])
        ctx.close(dp, d0, "parity_invariance", rtol=RTOL, atol=1e-9 * scale, what="density after spatial inversion (%d-body, parity_conserving=%s)" % (n, spec.get("parity_conserving")))
        cls.append("parity_checked")
        # inversion combined with the Lorentz transformation
        dq, _ = cards.density(config, amp, [kin.parity(x) for x in p1])
        ctx.close(dq, d0, "parity_and_lorentz", rtol=RTOL, atol=1e-9 * scale, what="density after inversion of the transformed event")
    if case.get("parent_beta"):
        cls.append("moving_parent")
    if np.linalg.norm(case["beta"]) > 0.8:
        cls.append("beta>0.8")
    return {"nontrivial": nontrivial(spec, case["euler"], case["beta"]), "classes": cls}


@oracle
def identical_exchange(ctx, case):
    """Two (or three) declared identical finals: exchanging their momenta
    leaves the density unchanged (bosons and fermions)."""
    spec = dict(case["spec"])
    if not spec["chains"]:
        return {"skip": "no_allowed_chain_generated"}
    finals = [dict(f) for f in spec["finals"]]
    i, j = case["pair"]
    finals[j] = dict(finals[i])
    spec["finals"] = finals
    spec["identical"] = [[i, j]]
    # the masses changed: keep the parent above threshold and resonances as drawn
    spec["top"] = dict(spec["top"], mass=float(sum(f["mass"] for f in finals) + 1.5))
    # rebuild the resonance content for the modified finals
    rng = np.random.RandomState(spec["rseed"])
    trees = [c["tree"] for c in spec["chains"]]
    spec["chains"] = gen.complete_structure(None, len(finals), finals, spec["top"], trees, False, rng)
    if not spec["chains"]:
        return {"skip": "no_allowed_chain_after_identification"}
    config, amp, nm = load_model(spec, case["pv"])
    p = gen.events(spec, case["ev_seed"], case["n_ev"], moving=case.get("parent_beta"))
    d0, _ = cards.density(config, amp, p)
    ctx.check(np.all(np.isfinite(d0)) and np.all(d0 >= 0), "finite_nonnegative", "density %s" % d0[:5])
    scale = float(np.median(d0))
    q = list(p)
    q[i], q[j] = p[j], p[i]
    d1, _ = cards.density(config, amp, q)
    ctx.close(d1, d0, "identical_particle_exchange", rtol=RTOL, atol=1e-9 * scale, what="density after exchanging finals %d,%d (J=%s)" % (i, j, finals[i]["J"]))
    # and it is still frame independent.  Recorded finding: the exchanged
    # term is evaluated with helicity frames aligned to the reference chain of
    # the EXCHANGED configuration, so with spinning final-state particles the
    # symmetrised density depends on the frame.  Only that class (identical
    # declared + some final spin > 0 + pure frame change) is attributed to it.
    any_spin = any(gen.fr(f["J"]) > 0 for f in finals)
    sig = "C01:identical_symmetrisation:spinning_finals:frame_dependence" if any_spin else None
    d2, _ = cards.density(config, amp, lorentz(q, case["euler"], case["beta"]))
    ctx.check(np.all(np.isfinite(d2)) and np.all(d2 >= 0), "finite_nonnegative", "density %s" % d2[:5])
    ctx.close(d2, d0, "identical_and_lorentz", rtol=RTOL, atol=1e-9 * scale, sig=sig, what="exchange + Lorentz transformation (final spins %s)" % [str(f["J"]) for f in finals])
    fermion = gen.fr(finals[i]["J"]).denominator == 2
    return {"nontrivial": True, "classes": gen.describe(spec) + ["identical_fermions" if fermion else "identical_bosons"] + (["identical_with_spinning_finals"] if any_spin else ["identical_all_spinless"])}


ang = st.one_of(st.floats(-math.pi, math.pi), st.sampled_from([0.0, math.pi / 2, math.pi, -math.pi / 2]))
beta_c = st.floats(-0.55, 0.55)
beta_st = st.one_of(
    st.tuples(beta_c, beta_c, beta_c),
    st.sampled_from([(0.0, 0.0, 0.0), (0.0, 0.0, 0.9), (0.6, -0.6, 0.4), (0.0, 0.95, 0.0), (1e-6, 0.0, 0.0)]),
)


def case_st(nfinal, **kw):
    return st.fixed_dictionaries(
        {
            "spec": gen.structure(nfinal=nfinal, **kw),
            "pv": st.lists(st.floats(0.05, 0.95), min_size=8, max_size=8),
            "ev_seed": st.integers(0, 2**31 - 1),
            "n_ev": st.just(24),
            "euler": st.tuples(ang, st.floats(0, math.pi), ang),
            "beta": beta_st,
            "parent_beta": st.one_of(st.none(), st.none(), st.tuples(beta_c, beta_c, beta_c)),
        }
    )


def ident_st(nfinal):
    return st.fixed_dictionaries(
        {
            "spec": gen.structure(nfinal=nfinal, max_chains=3, min_chains=2),
            "pair": st.sampled_from([(0, 1), (0, 2), (1, 2)]),
            "pv": st.lists(st.floats(0.05, 0.95), min_size=8, max_size=8),
            "ev_seed": st.integers(0, 2**31 - 1),
            "n_ev": st.just(16),
            "euler": st.tuples(ang, st.floats(0, math.pi), ang),
            "beta": beta_st,
            "parent_beta": st.one_of(st.none(), st.tuples(beta_c, beta_c, beta_c)),
        }
    )


def run_3body(ctx):
    ctx.run_cases(frame_invariance, case_st(3, max_chains=3), ctx.n(260, 6000), name="frame_3body")


def run_4body(ctx):
    ctx.run_cases(frame_invariance, case_st(4, max_chains=3), ctx.n(130, 3000), name="frame_4body")
    ctx.run_cases(frame_invariance, case_st(4, max_chains=2, parity_conserving=True), ctx.n(60, 1500), name="frame_4body_parity_conserving")


def run_ident(ctx):
    if ctx.shard == 0:
        # pinned trigger of the recorded finding
        import json, os

        from vlib.api import VERIF

        with open(os.path.join(VERIF, "pinned", "C01", "identical_spin_frame_dependence.json")) as f:
            pinned = json.load(f)["case"]
        try:
            ctx.eval(identical_exchange, pinned)
        except Exception:
            pass
    ctx.run_cases(identical_exchange, ident_st(3), ctx.n(90, 2000), name="identical_3body")
    ctx.run_cases(identical_exchange, ident_st(4), ctx.n(40, 1000), name="identical_4body")


SUBCHECKS = [
    Sub("three_body", run_3body, shards=(5, 8), budget=(220, 3000), weight=2),
    Sub("four_body", run_4body, shards=(7, 8), budget=(220, 3000), weight=3),
    Sub("identical", run_ident, shards=(4, 8), budget=(220, 3000), weight=2),
]
