"""C15 - line shapes equal their documented formulas."""

import math

import numpy as np
from hypothesis import strategies as st

from vlib import cards, env, kin, refmath
from vlib.api import Sub, oracle

RULE = (
    "per registered model with a documented closed formula: Hypothesis-drawn (m0, Gamma0, daughter masses, L/J, model parameters) and 40-80 mass points above threshold; "
    "value compared (real and imaginary part) with a numpy re-implementation of the docstring formula, through Particle.__call__ and, for interference-relevant phases, "
    "through the full amplitude interfering with a constant reference chain; barrier factors for L=0..8; sympy denominators x numeric value = 1. "
    "non-trivial = L>=1 or a model other than BW/one, and mass points away from m0; distinct = hash of the drawn case"
)
ASSUMPTIONS = [
    "documented formula = the model's docstring (tf_pwa/amp/base.py, core.py, split_ls.py, flatte.py, breit_wigner.py), re-implemented in numpy",
    "Flatte-family sympy denominators are compared on the physical sheet (sheet = 2^n - 1); the default sheet=0 is by construction another Riemann sheet",
    "GS_rho is compared with daughters equal to its built-in pion masses (the docstring does not say which masses enter q otherwise)",
    "BWR_LS with default fix_bug1=False is a recorded known finding; fix_bug1=True is asserted normally",
]

D = 3.0


# ------------------------------------------------------------- references
def q_of(m, m1, m2):
    return kin.two_body_p(np.asarray(m, dtype=float), m1, m2)


def ref_gamma(m, m0, g0, m1, m2, L):
    q, q0 = q_of(m, m1, m2), q_of(m0, m1, m2)
    return refmath.gamma_running(m, g0, q, q0, L, m0, D)


def ref_shape(model, m, par):
    m = np.asarray(m, dtype=float)
    m0, g0, m1, m2, L = par["mass"], par.get("width"), par["m1"], par["m2"], par["L"]
    if model == "BW":
        return 1.0 / (m0**2 - m**2 - 1j * m0 * g0)
    if model in ("BWR", "default", "BWR2", "BWR_below"):
        return 1.0 / (m0**2 - m**2 - 1j * m0 * ref_gamma(m, m0, g0, m1, m2, L))
    if model == "BWR_normal":
        G = ref_gamma(m, m0, g0, m1, m2, L)
        return np.sqrt(m0 * G) / (m0**2 - m**2 - 1j * m0 * G)
    if model == "BWR_coupling":
        q = q_of(m, m1, m2)
        b2 = refmath.theta_abs2_z2(L, 1.0) / refmath.theta_abs2_z2(L, (q * D) ** 2)
        return 1.0 / (m0**2 - m**2 - 1j * m0 * g0 * (q / m) * q ** (2 * L) * b2)
    if model == "GS_rho":
        mpi = (m1 + m2) / 2.0

        def h(x):
            qx = q_of(x, m1, m2)
            return 2 / np.pi * qx / x * np.log((x + 2 * qx) / (2 * mpi))

        q, q0 = q_of(m, m1, m2), q_of(m0, m1, m2)
        dh = h(m0) * (1 / (8 * q0**2) - 1 / (2 * m0**2)) + 1 / (2 * np.pi * m0**2)
        f = g0 * m0**2 / q0**3 * (q**2 * (h(m) - h(m0)) + (m0**2 - m**2) * q0**2 * dh)
        Dg = 3 / np.pi * mpi**2 / q0**2 * np.log((m0 + 2 * q0) / (2 * mpi)) + m0 / (2 * np.pi * q0) - mpi**2 * m0 / (np.pi * q0**3)
        G = ref_gamma(m, m0, g0, m1, m2, L)
        return (1 + Dg * g0 / m0) / ((m0**2 - m**2) + f - 1j * m0 * G)
    if model in ("Flatte", "FlatteC"):
        sign = 1.0 if model == "Flatte" else -1.0
        tot = 0
        for gi, (ma, mb) in zip(par["g"], par["mass_list"]):
            lam = (m**2 - (ma + mb) ** 2) * (m**2 - (ma - mb) ** 2)
            qi = np.where(lam >= 0, np.sqrt(np.abs(lam)) / (2 * m) + 0j, 1j * np.sqrt(np.abs(lam)) / (2 * m))
            tot = tot + gi * qi / m
        return 1.0 / (m0**2 - m**2 + sign * 1j * m0 * tot)
    if model == "one":
        return np.ones_like(m) + 0j
    if model == "x":
        return m + 0j
    if model == "exp":
        return np.exp(-abs(par["a"]) * m) + 0j
    if model == "exp_com":
        return np.exp(-(par["a"] + 1j * par["b"]) * m**2)
    raise KeyError(model)


SIMPLE_MODELS = ["BW", "BWR", "default", "BWR2", "BWR_below", "BWR_normal", "BWR_coupling", "GS_rho", "Flatte", "FlatteC", "one", "x", "exp", "exp_com"]
FAMILY = ("BW", "BWR", "default", "BWR2", "BWR_below")
PION = (0.13957039, 0.1349768)


def expand(case):
    model = case["model"]
    m1, m2 = case["m1"], case["m2"]
    if model == "GS_rho":
        m1, m2 = PION
    thr = m1 + m2
    m0 = thr + case["dm0"]
    L = case["L"]
    if model in ("one", "x", "exp", "exp_com"):
        L = 0
    par = {"mass": m0, "width": case["width"], "m1": m1, "m2": m2, "L": L}
    if model in ("Flatte", "FlatteC"):
        ml = [[m1, m2]] + [[thr / 2 + e[0], thr / 2 + e[1]] for e in case["extra_channels"]]
        par["mass_list"] = ml
        par["g"] = case["g"][: len(ml)]
    if model in ("exp", "exp_com"):
        par["a"], par["b"] = case["a"], case["b"]
    mD = case["mD"]
    M = max(m0, thr) + mD + case["dM"]
    return model, par, mD, M


def build(case, extra_res=None):
    """3-body card A -> R D, R -> B C with the model under test."""
    model, par, mD, M = expand(case)
    L = par["L"]
    r = {"pair": [0, 1], "J": L, "P": (-1) ** L, "mass": par["mass"], "model": model}
    if model not in ("Flatte", "FlatteC", "one", "exp", "exp_com"):
        r["width"] = par["width"]
    if model in ("Flatte", "FlatteC"):
        r["popts"] = {"mass_list": par["mass_list"]}
    res = [r] + (extra_res or [])
    spec = {
        "top": {"J": 0, "P": -1, "mass": M},
        "finals": [{"J": 0, "P": -1, "mass": par["m1"]}, {"J": 0, "P": -1, "mass": par["m2"]}, {"J": 0, "P": -1, "mass": mD}],
        "res": res,
    }
    cfg, nm = cards.card3(spec)
    config = cards.load(cfg)
    amp = config.get_amplitude()
    R = nm["res"][0]
    setp = {}
    if model in ("Flatte", "FlatteC"):
        for i, g in enumerate(par["g"]):
            setp["%s_g_%d" % (R, i)] = g
    if model in ("exp", "exp_com"):
        setp[R + "_a"] = par["a"]
    if model == "exp_com":
        setp[R + "_b"] = par["b"]
    if setp:
        amp.set_params(setp)
    return model, par, mD, M, config, amp, nm


def mass_points(case, par, M, mD):
    thr = par["m1"] + par["m2"]
    hi = M - mD
    u = np.asarray(case["mu"], dtype=float)
    pts = thr + (hi - thr) * (0.002 + 0.996 * u)
    return np.concatenate([pts, [par["mass"]]]) if par["mass"] > thr else pts


@oracle
def shape_call(ctx, case):
    """Particle.__call__(m) against the docstring formula."""
    tf = env.tfpwa()
    model, par, mD, M, config, amp, nm = build(case)
    p = amp.decay_group.get_particle(nm["res"][0])
    m = mass_points(case, par, M, mD)
    lib = np.asarray(p(tf.constant(m, dtype=tf.float64)))
    lib = np.broadcast_to(lib, m.shape) if lib.shape != m.shape else lib
    ref = ref_shape(model, m, par)
    scale = float(np.max(np.abs(ref)))
    ctx.check(np.all(np.isfinite(lib.real)) and np.all(np.isfinite(lib.imag)), "finite", "%s: %s" % (model, lib[:4]))
    # per-point tolerance relative to the modulus (at m = m0 the real part is an exact cancellation: its rounding
    # error is of relative size 1e-16 |R|^2 (m0 Gamma) m0, not relative to Re R = 0)
    # conditioning of a narrow pole: one rounding error eps in m0^2 - m^2 moves R by |R|^2 m0^2 eps
    atol = 1e-11 * scale + 1e-9 * np.abs(ref) + 1e-15 * par["mass"] ** 2 * np.abs(ref) ** 2
    ctx.close(lib.real, ref.real, "formula_real:" + model, rtol=1e-9, atol=atol, what="%s L=%d Re" % (model, par["L"]))
    ctx.close(lib.imag, ref.imag, "formula_imag:" + model, rtol=1e-9, atol=atol, what="%s L=%d Im" % (model, par["L"]))
    if model in FAMILY:
        ctx.check(np.all(lib.imag > 0), "family_im_positive:" + model, "Im R <= 0 for Gamma0>0: %s" % lib[:3])
        at0 = lib[-1]
        want = 1j / (par["mass"] * par["width"])
        ctx.check(abs(at0 - want) <= 1e-9 * abs(want), "family_value_at_m0:" + model, "R(m0)=%r expected i/(m0 G0)=%r" % (at0, want))
    # sympy denominator * numeric line shape = 1
    cls = [model, "L=%d" % par["L"]]
    if model in ("BW", "BWR", "default", "BWR_coupling", "Flatte", "FlatteC"):
        import sympy as sym

        var = p.get_sympy_var()
        kw = {}
        if model in ("Flatte", "FlatteC"):
            kw["sheet"] = 2 ** len(par["mass_list"]) - 1
        dom = p.get_sympy_dom(*var, **kw)
        num = p.get_num_var()
        names = [str(v) for v in var]
        vals = [float(np.asarray(x)) for x in num]
        f = sym.lambdify(list(var), dom, "numpy")
        sel = m[:: max(1, len(m) // 8)]
        # physical sheet for sqrt of negative arguments: evaluate with complex m
        dval = np.array([complex(f(complex(mm), *vals)) for mm in sel])
        libsel = lib[:: max(1, len(m) // 8)]
        prod = dval * libsel
        ctx.check(np.all(np.abs(prod - 1) < 1e-8), "sympy_dom_reciprocal:" + model, "dom*R = %s at m=%s" % (prod[:4], sel[:4]))
        cls.append("sympy_dom")
    away = np.sum(np.abs(m - par["mass"]) > 0.02)
    return {"nontrivial": (par["L"] >= 1 or model not in ("BW", "one", "x")) and away >= 5, "classes": cls}


@oracle
def shape_in_amplitude(ctx, case):
    """Phase of the line shape through the full amplitude: the model chain
    interferes with a constant ('one', J=0) chain in another pairing."""
    from checks.c04 import reference_density

    ref_res = {"pair": [0, 2], "J": 0, "P": 1, "mass": case["m1"] + case["mD"] + 0.3, "model": "one"}
    model, par, mD, M, config, amp, nm = build(case, extra_res=[ref_res])
    mf = [par["m1"], par["m2"], mD]
    chains = amp.decay_group.chains
    ctx.check(len(chains) == 2, "chain_count", str(chains))
    c_model = case["c"][0] * np.exp(1j * case["c"][1])
    c_ref = case["c"][2] * np.exp(1j * case["c"][3])
    setp = {}
    for ch in chains:
        inner = str(ch.inner[0])
        c = c_model if inner == nm["res"][0] else c_ref
        setp[ch.total.name + "_0r"] = abs(c)
        setp[ch.total.name + "_0i"] = float(np.angle(c))
    amp.set_params(setp)
    rng = np.random.RandomState(case["ev_seed"])
    u = rng.uniform(size=(60, 5))
    u[:, 0] = np.clip(u[:, 0], 1e-4, 1 - 1e-4)
    p4 = kin.gen_three_body(M, mf, u)
    dens, _ = cards.density(config, amp, p4)
    res = [
        {"pair": [0, 1], "J": par["L"], "mass": par["mass"], "c": c_model, "shape": lambda m: ref_shape(model, m, par)},
        {"pair": [0, 2], "J": 0, "mass": ref_res["mass"], "c": c_ref, "shape": lambda m: np.ones_like(m) + 0j},
    ]
    ref = reference_density(M, mf, res, p4)
    ctx.close(dens, ref, "amplitude_interference:" + model, rtol=1e-8, atol=1e-12 * float(np.max(ref)), what="%s L=%d interfering with constant chain" % (model, par["L"]))
    return {"nontrivial": True, "classes": [model, "L=%d" % par["L"]]}


# ---- LS-split models -----------------------------------------------------
@oracle
def ls_models(ctx, case):
    tf = env.tfpwa()
    model = case["model"]
    m1, m2, mD = case["m1"], case["m2"], case["mD"]
    thr = m1 + m2
    m0 = thr + case["dm0"]
    M = m0 + mD + case["dM"]
    two_ls = case["two_ls"]
    n_ls = case.get("n_ls") or (2 if two_ls else 1)
    # R(1-) -> B(1-)C(0-): (1,1);  R(1+) -> B(1-) C(0-): (0,1),(2,1)
    # R(1+) -> B(1-) C(1-): (0,1),(2,1),(2,2);  R(2+) -> B(1-) C(1-): five couplings
    Jr, Pr, Jc = {1: (1, -1, 0), 2: (1, 1, 0), 3: (1, 1, 1), 5: (2, 1, 1)}[n_ls]
    want_ls = {1: [(1, 1)], 2: [(0, 1), (2, 1)], 3: [(0, 1), (2, 1), (2, 2)], 5: [(2, 0), (2, 1), (0, 2), (2, 2), (4, 2)]}[n_ls]
    r = {"pair": [0, 1], "J": Jr, "P": Pr, "mass": m0, "width": case["width"], "model": model, "popts": {}}
    if model == "BWR_LS":
        r["popts"]["fix_bug1"] = bool(case["fix_bug1"])
    if model == "MultiBWR":
        r["popts"] = {"mass_list": [m0, m0 + case["dm2"]], "width_list": [case["width"], case["width2"]]}
        del r["width"]
    spec = {
        "top": {"J": 1, "P": -1, "mass": M},
        "finals": [{"J": 1, "P": -1, "mass": m1}, {"J": Jc, "P": -1, "mass": m2}, {"J": 0, "P": -1, "mass": mD}],
        "res": [r],
    }
    for rr in spec["res"]:
        rr["dopts_top"] = {"p_break": True}
    cfg, nm = cards.card3(spec)
    config = cards.load(cfg)
    amp = config.get_amplitude()
    R = nm["res"][0]
    p = amp.decay_group.get_particle(R)
    ls = [tuple(x) for x in p.decay[0].get_ls_list()]
    ctx.check(sorted(ls) == sorted(want_ls), "ls_list", str(ls))
    setp = {}
    theta = case["theta"]
    thetas = [theta + 0.37 * k for k in range(len(ls) - 1)]
    if model == "BWR_LS":
        for k, th in enumerate(thetas):
            setp["%s_theta%d" % (R, k)] = th
    coeff = None
    if model == "MultiBWR":
        cf = np.array(case["coeff"], dtype=float).reshape(-1, 2)
        cf = np.concatenate([cf] * 4)[: 2 * len(ls)]
        coeff = cf.reshape(len(ls), 2, 2)
        for i in range(len(ls)):
            for k in range(2):
                if (i, k) == (0, 0):
                    continue
                setp["%s_coeff_%d_%dr" % (R, i, k)] = coeff[i, k, 0]
                setp["%s_coeff_%d_%di" % (R, i, k)] = coeff[i, k, 1]
    if setp:
        amp.set_params(setp)
    u = np.asarray(case["mu"], dtype=float)
    m = thr + (M - mD - thr) * (0.002 + 0.996 * u)
    q2 = kin.two_body_p2(m, m1, m2)
    q02 = kin.two_body_p2(m0, m1, m2)
    out = p.get_ls_amp(tf.constant(m), ls, tf.constant(q2), tf.constant(q02 + 0 * m), 3.0)
    lib = [np.asarray(x) for x in out]
    q, q0 = np.sqrt(q2), math.sqrt(q02)
    cls = [model, "n_ls=%d" % len(ls)]
    two_ls = len(ls) == 2
    sig = None
    if model == "BWR_LS":
        # documented normalisation: (cos t0, sin t0 cos t1, ..., prod sin t_i)
        gam = []
        f_ = 1.0
        for th in thetas:
            gam.append(f_ * math.cos(th))
            f_ *= math.sin(th)
        gam.append(f_)
        ctx.check(abs(sum(x * x for x in gam) - 1) < 1e-12, "harness_gamma_norm", "")
        g = [gam[i] * (q / q0) ** l * refmath.bprime(l, q, q0, D) for i, (l, s) in enumerate(ls)]
        rho_ratio = (q / m) / (q0 / m0)
        den = m0**2 - m**2 - 1j * m0 * case["width"] * rho_ratio * sum(x * x for x in g)
        ref = [x / den for x in g]
        if not case["fix_bug1"]:
            cls.append("fix_bug1=False")
            # recorded finding: the default multiplies the width by m/m0 instead
            # of m0/m.  Only a result that matches exactly THAT wrong formula is
            # attributed to the finding; anything else is a new violation.
            den_bug = m0**2 - m**2 - 1j * m0 * case["width"] * (q / q0) * (m / m0) * sum(x * x for x in g)
            bug = [x / den_bug for x in g]
            is_bug = len(lib) == len(bug) and all(np.allclose(a, b, rtol=1e-9, atol=1e-11 * float(np.max(np.abs(b)) + 1e-300)) for a, b in zip(lib, bug))
            if is_bug:
                sig = "C15:BWR_LS:fix_bug1=False:width_factor_m_over_m0"
    elif model == "BWR_LS2":
        ref = []
        for l, s in ls:
            g = (q / q0) ** l * refmath.bprime(l, q, q0, D)
            ref.append(1.0 / (m0**2 - m**2 - 1j * m0 * case["width"] * (q / m) / (q0 / m0) * g * g))
    else:  # MultiBWR: sum_k c_ik BWR(m; m_k, G_k, l_min) * (q/q0)^l_i B'_l_i
        lmin = min(l for l, s in ls)
        masses = [m0, m0 + case["dm2"]]
        widths = [case["width"], case["width2"]]
        # line shapes use the FIRST mass for q0 (as passed), documented as "combine multi BWR"
        bws = [1.0 / (mk**2 - m**2 - 1j * mk * gk * (q / q0) ** (2 * lmin + 1) * (mk / m) * refmath.bprime(lmin, q, q0, D) ** 2) for mk, gk in zip(masses, widths)]
        ref = []
        for i, (l, s) in enumerate(ls):
            c = [complex(1.0, 0.0) if (i, k) == (0, 0) else None for k in range(2)]
            tot = 0
            for k in range(2):
                if (i, k) == (0, 0):
                    ck = 1.0 + 0j
                else:
                    ck = coeff[i, k, 0] * np.exp(1j * coeff[i, k, 1])
                tot = tot + ck * bws[k]
            ref.append(tot * (q / q0) ** l * refmath.bprime(l, q, q0, D))
    ctx.check(len(lib) == len(ref), "n_components", "%d vs %d" % (len(lib), len(ref)))
    scale = max(float(np.max(np.abs(b))) for b in ref)
    for i, (a, b) in enumerate(zip(lib, ref)):
        ctx.close(a.real, b.real, "formula_real:" + model, rtol=1e-9, atol=1e-11 * scale, sig=sig, what="%s component %d Re" % (model, i))
        ctx.close(a.imag, b.imag, "formula_imag:" + model, rtol=1e-9, atol=1e-11 * scale, sig=sig, what="%s component %d Im" % (model, i))
    if model == "BWR_LS":
        import sympy as sym

        var = p.get_sympy_var()
        dom = p.get_sympy_dom(*var)
        flat = [var[0], var[1], var[2]] + list(var[3]) + [var[4], var[5]]
        f = sym.lambdify(flat, dom, "numpy")
        ths = thetas
        sel = m[::6]
        dval = np.array([complex(f(complex(mm), m0, case["width"], *ths, m1, m2)) for mm in sel])
        for i, (l, s) in enumerate(ls):
            gi = gam[i] * (q[::6] / q0) ** l * refmath.bprime(l, q[::6], q0, D)
            prod = dval * lib[i][::6] / gi
            if abs(gam[i]) > 1e-3:
                ctx.check(np.all(np.abs(prod - 1) < 1e-8), "sympy_dom_reciprocal:BWR_LS", "dom*R_i/g_i = %s (fix_bug1=%s)" % (prod[:3], case["fix_bug1"]))
        cls.append("sympy_dom")
    return {"nontrivial": True, "classes": cls}


# ---- barrier factors ------------------------------------------------------
@oracle
def barrier(ctx, case):
    tf = env.tfpwa()
    from tf_pwa.breit_wigner import Bprime, Bprime_polynomial, Bprime_q2, barrier_factor

    L, d = case["L"], case["d"]
    q = np.asarray(case["q"], dtype=float)
    q0 = case["q0"]
    lib = np.asarray(Bprime(L, tf.constant(q), tf.constant(q0, dtype=tf.float64), d))
    ref = refmath.bprime(L, q, q0, d)
    ctx.close(lib, ref, "bprime_formula", rtol=1e-10, what="B'_%d(q,q0=%g,d=%g)" % (L, q0, d))
    one = float(np.asarray(Bprime(L, tf.constant([q0], dtype=tf.float64), tf.constant(q0, dtype=tf.float64), d)).reshape(-1)[0])
    ctx.check(abs(one - 1) < 1e-12, "bprime_one_at_q0", "B'_%d(q0,q0)=%r" % (L, one))
    pol = np.asarray(Bprime_polynomial(L, tf.constant((q * d) ** 2)))
    ctx.close(pol, refmath.theta_abs2(L, q * d), "theta_polynomial", rtol=1e-10, what="|theta_%d(i q d)|^2" % L)
    lib2 = np.asarray(Bprime_q2(L, tf.constant(q * q), tf.constant(q0 * q0, dtype=tf.float64), d))
    ctx.close(lib2, ref, "bprime_q2_above_threshold", rtol=1e-10, what="Bprime_q2 L=%d" % L)
    neg = -np.asarray(case["q"], dtype=float) ** 2
    # the continuation of |theta_L|^2 to q^2<0 has isolated real zeros (e.g.
    # z=-1 for L=1) where the documented function itself diverges: not asserted
    pz = refmath.theta_abs2_z2(L, neg * d * d)
    keep = np.abs(pz) > 1e-6 * np.maximum(1.0, np.abs(neg * d * d)) ** L
    n_pole = int(np.sum(~keep))
    neg = neg[keep]
    if not len(neg):
        neg = np.array([-1e-3])
    below = np.asarray(Bprime_q2(L, tf.constant(neg), tf.constant(q0 * q0, dtype=tf.float64), d)).reshape(-1)
    ctx.check(np.all(np.isfinite(below)), "bprime_q2_finite_below", "L=%d q2=%s -> %s" % (L, neg[:3], below[:3]))
    bf = np.asarray(barrier_factor([L], tf.constant(q), tf.constant(q0, dtype=tf.float64), d))[0]
    ctx.close(bf, q**L * ref, "q^L_barrier", rtol=1e-10, what="q^L B'_L")
    return {"nontrivial": L >= 1, "classes": ["L=%d" % L, "stored_table" if L <= 5 else "generated_coeff"] + (["pole_of_continuation_excluded"] if n_pole else [])}


# ------------------------------------------------------------- strategies
mass_st = st.one_of(st.sampled_from([0.13957, 0.49368, 0.93827, 0.3]), st.floats(0.05, 1.2))


def simple_case_st(models):
    return st.fixed_dictionaries(
        {
            "model": st.sampled_from(models),
            "m1": mass_st,
            "m2": mass_st,
            "mD": mass_st,
            "dm0": st.floats(0.05, 1.5),
            "dM": st.floats(0.2, 1.5),
            "width": st.floats(0.01, 0.6),
            "L": st.integers(0, 4),
            "mu": st.lists(st.floats(0, 1), min_size=40, max_size=80),
            "extra_channels": st.lists(st.tuples(st.floats(-0.2, 0.6), st.floats(-0.2, 0.6)).map(lambda t: [abs(t[0]) + 0.02, abs(t[1]) + 0.02]), min_size=0, max_size=2),
            "g": st.lists(st.floats(0.05, 1.0), min_size=3, max_size=3),
            "a": st.floats(-2.0, 2.0),
            "b": st.floats(-5.0, 5.0),
            "c": st.tuples(st.floats(0.3, 2.0), st.floats(-3.1, 3.1), st.floats(0.3, 2.0), st.floats(-3.1, 3.1)),
            "ev_seed": st.integers(0, 2**31 - 1),
        }
    )


ls_case_st = st.fixed_dictionaries(
    {
        "model": st.sampled_from(["BWR_LS", "BWR_LS", "BWR_LS2", "MultiBWR"]),
        "fix_bug1": st.just(True),
        "two_ls": st.booleans(),
        "n_ls": st.sampled_from([1, 2, 3, 5]),
        "m1": mass_st,
        "m2": mass_st,
        "mD": mass_st,
        "dm0": st.floats(0.05, 1.5),
        "dM": st.floats(0.2, 1.5),
        "dm2": st.floats(0.05, 0.5),
        "width": st.floats(0.01, 0.6),
        "width2": st.floats(0.01, 0.6),
        "theta": st.floats(-3.0, 3.0),
        "coeff": st.lists(st.tuples(st.floats(0.1, 2.0), st.floats(-3.1, 3.1)), min_size=4, max_size=4),
        "mu": st.lists(st.floats(0, 1), min_size=30, max_size=60),
    }
)

barrier_st = st.fixed_dictionaries(
    {
        "L": st.integers(0, 8),
        "d": st.one_of(st.just(3.0), st.floats(0.5, 6.0)),
        "q0": st.floats(0.02, 2.0),
        "q": st.lists(st.floats(1e-3, 3.0), min_size=5, max_size=30),
    }
)


def run_call(ctx):
    ctx.run_cases(shape_call, simple_case_st(SIMPLE_MODELS), ctx.n(560, 14000))


def run_amp(ctx):
    ctx.run_cases(shape_in_amplitude, simple_case_st([m for m in SIMPLE_MODELS if m not in ("x",)]), ctx.n(260, 6000))


def run_ls(ctx):
    ctx.run_cases(ls_models, ls_case_st, ctx.n(240, 6000))
    # pinned trigger of the recorded finding (default fix_bug1=False)
    base = {"model": "BWR_LS", "fix_bug1": False, "two_ls": False, "m1": 0.3, "m2": 0.2, "mD": 0.5, "dm0": 0.5, "dM": 0.8, "dm2": 0.1, "width": 0.1, "width2": 0.1, "theta": 0.4, "coeff": [[1, 0]] * 4, "mu": [i / 30.0 for i in range(30)]}
    if ctx.shard == 0:
        for two in (False, True):
            c = dict(base, two_ls=two)
            try:
                ctx.eval(ls_models, c)
            except Exception:
                pass


def run_barrier(ctx):
    ctx.run_cases(barrier, barrier_st, ctx.n(900, 30000))


SUBCHECKS = [
    Sub("call", run_call, shards=(6, 12), budget=(200, 2400), weight=3),
    Sub("in_amplitude", run_amp, shards=(5, 10), budget=(200, 2400), weight=3),
    Sub("ls_models", run_ls, shards=(3, 6), budget=(200, 2400), weight=2),
    Sub("barrier", run_barrier, shards=(2, 4), budget=(200, 1200)),
]
