"""C02 - the density does not depend on unphysical bookkeeping conventions."""

import copy
import itertools
import math

import numpy as np
from hypothesis import strategies as st

from vlib import cards, env, gen, kin
from vlib.api import Sub, Violation, oracle

RULE = (
    "case = generated 3- or 4-body structure with >=2 chains and at least one spinning final-state particle (incl. spin 1/2), parameters fixed by name; variants: permutations of the chain list "
    "(which changes the alignment reference chain), reversed dict key order, align_ref in {None, center_mass}, random_z, center_mass, only_left_angle; events with the parent at rest and with a moving parent. "
    "non-trivial = variant differs from the baseline in chain order or an option, chains of >=2 different topologies, final spin > 0; distinct = hash of (case, variant)"
)
ASSUMPTIONS = [
    "r_boost=False is not a variant (the statement is about the default, Wigner-rotation aware alignment)",
    "relative tolerance 2e-7 on the density",
    "known finding: align_ref=center_mass with center_mass=False and a moving parent (pinned, excluded from the search by construction and counted)",
]
RTOL = 2e-7
OPTS = ["align_ref", "random_z", "center_mass", "only_left_angle"]


def variant_cfg(spec, sfx, order, opts, reverse_keys):
    sp = copy.deepcopy(spec)
    sp["chains"] = [sp["chains"][i] for i in order]
    data = {}
    if opts.get("align_ref"):
        data["align_ref"] = "center_mass"
    for k in ("random_z", "center_mass", "only_left_angle"):
        if k in opts:
            data[k] = bool(opts[k])
    sp["data"] = data
    cfg, nm = gen.build(sp, sfx=sfx)
    if reverse_keys:
        cfg["decay"] = dict(reversed(list(cfg["decay"].items())))
        top = {k: v for k, v in cfg["particle"].items() if k.startswith("$")}
        rest = {k: v for k, v in cfg["particle"].items() if not k.startswith("$")}
        cfg["particle"] = {**dict(reversed(list(rest.items()))), **top}
        for k in cfg["decay"]:
            cfg["decay"][k] = list(reversed(cfg["decay"][k]))
    return cfg, nm


def is_known_bad(opts, moving):
    return bool(opts.get("align_ref")) and not opts.get("center_mass", False) and moving


@oracle
def conventions(ctx, case):
    spec = case["spec"]
    if len(spec["chains"]) < 2:
        return {"skip": "fewer_than_two_chains"}
    sfx = env.uniq()
    n = len(spec["chains"])
    base_cfg, nm = variant_cfg(spec, sfx, list(range(n)), {}, False)
    config = cards.load(base_cfg)
    amp = config.get_amplitude()
    cards.assign_params(amp, case["pv"])
    ref_params = {k: float(v) for k, v in amp.get_params().items()}
    moving = case.get("parent_beta")
    p = gen.events(spec, case["ev_seed"], case["n_ev"], moving=moving)
    d0, _ = cards.density(config, amp, p)
    ctx.check(np.all(np.isfinite(d0)) and np.all(d0 >= 0), "finite_nonnegative", str(d0[:4]))
    scale = float(np.median(d0))
    if scale <= 0:
        return {"skip": "zero_density"}
    perms = list(itertools.permutations(range(n)))
    nvar = 0
    excluded = 0
    multi_topo = len({str(c["tree"]) for c in spec["chains"]}) >= 2
    cls = gen.describe(spec) + (["moving_parent"] if moving else ["parent_at_rest"])
    for v in case["variants"]:
        order = list(perms[v["perm"] % len(perms)])
        opts = {k: v[k] for k in OPTS if v.get(k) is not None}
        if is_known_bad(opts, bool(moving)):
            excluded += 1
            continue
        cfg, _ = variant_cfg(spec, sfx, order, opts, v["reverse_keys"])
        c2 = cards.load(cfg)
        a2 = c2.get_amplitude()
        names2 = set(a2.get_params().keys())
        ctx.check(names2 == set(ref_params), "parameter_names_independent_of_order", "names differ: %s" % sorted(names2 ^ set(ref_params))[:6])
        a2.set_params(ref_params)
        ctx.check(len(a2.decay_group.chains) == len(amp.decay_group.chains), "chain_count", "%d vs %d" % (len(a2.decay_group.chains), len(amp.decay_group.chains)))
        d1, _ = cards.density(c2, a2, p)
        what = "order=%s opts=%s reverse_keys=%s moving=%s" % (order, opts, v["reverse_keys"], bool(moving))
        ctx.close(d1, d0, "convention_independence", rtol=RTOL, atol=1e-9 * scale, what=what)
        nvar += 1
        if order != list(range(n)):
            cls.append("chain_permutation")
        for k in opts:
            cls.append("opt:" + k)
    final_spin = any(gen.fr(f["J"]) > 0 for f in spec["finals"])
    return {"nontrivial": nvar > 0 and multi_topo and final_spin, "classes": sorted(set(cls)), "variants": nvar, "excluded_known": excluded}


@oracle
def known_center_mass_moving(ctx, case):
    """Pinned trigger of the recorded finding: align_ref=center_mass,
    center_mass=False, moving parent."""
    spec = case["spec"]
    sfx = env.uniq()
    n = len(spec["chains"])
    base_cfg, _ = variant_cfg(spec, sfx, list(range(n)), {}, False)
    config = cards.load(base_cfg)
    amp = config.get_amplitude()
    cards.assign_params(amp, case["pv"])
    ref_params = {k: float(v) for k, v in amp.get_params().items()}
    p = gen.events(spec, case["ev_seed"], case["n_ev"], moving=case["parent_beta"])
    d0, _ = cards.density(config, amp, p)
    cfg, _ = variant_cfg(spec, sfx, list(range(n)), {"align_ref": True}, False)
    c2 = cards.load(cfg)
    a2 = c2.get_amplitude()
    a2.set_params(ref_params)
    d1, _ = cards.density(c2, a2, p)
    ctx.close(d1, d0, "convention_independence", rtol=RTOL, atol=1e-9 * float(np.median(d0)), sig="C02:align_ref=center_mass:center_mass=False:moving_parent", what="align_ref=center_mass, center_mass=False, moving parent")
    # with the parent at rest the same option must agree
    p0 = gen.events(spec, case["ev_seed"], case["n_ev"], moving=None)
    e0, _ = cards.density(config, amp, p0)
    e1, _ = cards.density(c2, a2, p0)
    ctx.close(e1, e0, "convention_independence", rtol=RTOL, atol=1e-9 * float(np.median(e0)), what="align_ref=center_mass with the parent at rest")
    return {"nontrivial": True, "classes": ["pinned_known_finding"]}


tri = st.sampled_from([None, True, False])
variant_st = st.fixed_dictionaries(
    {
        "perm": st.integers(0, 5),
        "reverse_keys": st.booleans(),
        "align_ref": st.sampled_from([None, True]),
        "random_z": tri,
        "center_mass": tri,
        "only_left_angle": tri,
    }
)
beta_c = st.floats(-0.5, 0.5)


def case_st(nfinal):
    return st.fixed_dictionaries(
        {
            "spec": gen.structure(nfinal=nfinal, max_chains=3, min_chains=2, need_spin=True),
            "pv": st.lists(st.floats(0.05, 0.95), min_size=8, max_size=8),
            "ev_seed": st.integers(0, 2**31 - 1),
            "n_ev": st.just(16),
            "parent_beta": st.one_of(st.none(), st.tuples(beta_c, beta_c, beta_c).filter(lambda b: sum(x * x for x in b) > 1e-4)),
            "variants": st.lists(variant_st, min_size=3, max_size=6),
        }
    )


PINNED = {
    "spec": {
        "top": {"J": "1/2", "P": 1, "mass": 3.2},
        "finals": [{"J": "1/2", "P": 1, "mass": 0.93827}, {"J": 0, "P": -1, "mass": 0.49368}, {"J": 1, "P": -1, "mass": 0.55}],
        "chains": [
            {"tree": [[0, 1], 2], "res": {"01": {"J": "3/2", "P": -1, "mass": 1.7, "width": 0.1, "id": 0}}, "p_break_top": True},
            {"tree": [[1, 2], 0], "res": {"12": {"J": 1, "P": 1, "mass": 1.4, "width": 0.2, "id": 1}}, "p_break_top": True},
        ],
        "parity_conserving": False,
        "rseed": 0,
    },
    "pv": [0.3, 0.7, 0.2, 0.9, 0.5, 0.4, 0.6, 0.8],
    "ev_seed": 7,
    "n_ev": 12,
    "parent_beta": [0.3, -0.2, 0.4],
}


def run_3body(ctx):
    if ctx.shard == 0:
        try:
            ctx.eval(known_center_mass_moving, PINNED)
        except Exception:
            pass
    ctx.run_cases(conventions, case_st(3), ctx.n(220, 4000), name="conventions_3body")


def run_4body(ctx):
    ctx.run_cases(conventions, case_st(4), ctx.n(120, 2400), name="conventions_4body")


SUBCHECKS = [
    Sub("three_body", run_3body, shards=(8, 8), budget=(250, 3000), weight=2),
    Sub("four_body", run_4body, shards=(8, 8), budget=(250, 3000), weight=3),
]
