"""C07 - returned gradients, Hessians and Hessian-vector products are the true
derivatives of the returned NLL."""

import math

import numpy as np
from hypothesis import strategies as st

from vlib import cards, env, gen, nllcase
from vlib.api import Sub, oracle

RULE = (
    "case = C06-style generated likelihood case (all claimed models) with smaller samples; floating sets: couplings only, + mass and width of a resonance, + bounded parameters (two-sided / lower / upper), "
    "Gaussian constraints; oracle: Richardson-extrapolated central finite differences of the REPORTED NLL fcn(x) with their own error estimate, for the gradient, each Hessian row (FD of the returned gradient) "
    "and H.p; value returned alongside equals fcn(x); independence of the batch size; the bound-transformed wrappers are differentiated numerically in fit space. "
    "non-trivial = >=4 free parameters incl. a mass/width or a bounded one, and (model != default or a constraint is present); distinct = hash of the case"
)
ASSUMPTIONS = [
    "finite differences: steps h and h/2 with h = 2e-4*(1+|x|); tolerance 20*|g(h/2)-g(h)| + 2e-6*(1+|g|+scale)",
    "parameter points are interior (bounds are placed 0.3..2 away from the current value; densities kept above 1e-3)",
    "cached_int is exercised with fixed line shapes only (its applicability condition)",
    "Hessian-vector products are asserted for the models that implement their own (default, extended, cached_*); cfit / custom models inherit the default-model routine and are recorded as a known finding if they differ",
]


def set_point(vm, names, x):
    for n, v in zip(names, x):
        vm.variables[n].assign(float(v))


def dir_fd_scalar(f, vm, names, x0, d):
    """directional derivative of the scalar f along d: central differences at
    t and t/2, Richardson extrapolated; returns (value, error estimate)"""
    t = 2e-4 * (1 + float(np.max(np.abs(x0)))) / max(float(np.max(np.abs(d))), 1e-12)
    vals = []
    for tt in (t, t / 2):
        set_point(vm, names, x0 + tt * d)
        fp = f()
        set_point(vm, names, x0 - tt * d)
        fm = f()
        vals.append((fp - fm) / (2 * tt))
    set_point(vm, names, x0)
    return (4 * vals[1] - vals[0]) / 3, abs(vals[1] - vals[0])


def dir_fd_vector(fvec, vm, names, x0, d):
    t = 2e-4 * (1 + float(np.max(np.abs(x0)))) / max(float(np.max(np.abs(d))), 1e-12)
    vals = []
    for tt in (t, t / 2):
        set_point(vm, names, x0 + tt * d)
        gp = fvec()
        set_point(vm, names, x0 - tt * d)
        gm = fvec()
        vals.append((gp - gm) / (2 * tt))
    set_point(vm, names, x0)
    return (4 * vals[1] - vals[0]) / 3, np.abs(vals[1] - vals[0])


def directions(names, special, seed, k=1):
    """coordinate directions of (two of) the special parameters (mass, width,
    bounded, constrained), chosen by the seed, plus k random dense directions"""
    if len(special) > 2:
        r0 = np.random.RandomState(seed % 2**31 + 1)
        special = list(r0.permutation(special))
    n = len(names)
    out = []
    for i in special[:2]:
        e = np.zeros(n)
        e[i] = 1.0
        out.append(("d/d %s" % names[i], e))
    rng = np.random.RandomState(seed % 2**31)
    for j in range(k):
        out.append(("random direction %d" % j, rng.uniform(-1, 1, size=n)))
    return out


def assert_close(ctx, got, ref, err, scale, clause, what, sig=None):
    got = np.atleast_1d(np.asarray(got, dtype=float))
    ref = np.atleast_1d(np.asarray(ref, dtype=float))
    err = np.atleast_1d(np.asarray(err, dtype=float))
    tolv = 20 * err + 2e-6 * (1 + np.abs(ref) + scale)
    bad = np.abs(got - ref) > tolv
    if np.any(bad):
        i = int(np.argmax(np.abs(got - ref) - tolv))
        ctx.check(False, clause, "%s: returned %.10g, finite difference %.10g (fd error %.2e, component %d)" % (what, got[i], ref[i], err[i], i), sig=sig)


@oracle
def derivatives(ctx, case):
    if len(case["spec"]["chains"]) < 1:
        return {"skip": "no_chain"}
    model = case["model"]
    case = dict(case)
    first_batch = case["batch"]
    if case["batch"] < 65000:
        case["batch"] = 65000  # finite differences need a few dozen evaluations: one batch
    float_shape = case["float_shape"] and model != "cached_int"
    nc = nllcase.NllCase(case, float_shape=float_shape, bounds=True)
    fcn, amp, vm = nc.fcn, nc.amp, nc.amp.vm
    names = list(vm.trainable_vars)
    if not names:
        return {"skip": "no_free_parameter"}
    x0 = np.array([float(vm.variables[n].numpy()) for n in names])
    special = [i for i, n in enumerate(names) if n.endswith("_mass") or n.endswith("_width") or n in vm.bnd_dic or n in nc.gauss]
    dirs = directions(names, special, case["seed"])
    f = lambda: float(fcn({}))
    gvec = lambda: np.asarray(fcn.nll_grad({})[1], dtype=float)
    v0 = f()
    cls = ["model=" + model, "npar=%d" % min(len(names), 30)]
    # ---- gradient
    v1, g = fcn.nll_grad({})
    g = np.asarray(g, dtype=float)
    ctx.check(g.shape == (len(names),), "gradient_shape", str(g.shape))
    ctx.check(abs(float(v1) - v0) <= 1e-9 * max(1, abs(v0)), "value_with_gradient", "nll_grad()[0]=%.12g, fcn()=%.12g (model %s)" % (float(v1), v0, model))
    g2 = np.asarray(fcn.grad({}), dtype=float)
    gscale = float(np.max(np.abs(g)))
    for label, d in dirs:
        ref, err = dir_fd_scalar(f, vm, names, x0, d)
        assert_close(ctx, g @ d, ref, err, gscale * float(np.max(np.abs(d))), "gradient", "model=%s, %s" % (model, label))
        assert_close(ctx, g2 @ d, ref, err, gscale * float(np.max(np.abs(d))), "gradient_grad_method", "model=%s fcn.grad(), %s" % (model, label))
    # ---- batch-size independence of value and gradient
    if first_batch != case["batch"] and model not in ("cached_int", "cached_amp", "cfit_cached"):
        fb = nc.make_fcn(first_batch)
        vb, gb = fb.nll_grad({})
        ctx.check(abs(float(vb) - v0) <= 1e-9 * max(1, abs(v0)), "batch_independence_value", "batch %d: %.12g vs %.12g" % (first_batch, float(vb), v0))
        ctx.close(np.asarray(gb, dtype=float), g, "batch_independence_gradient", rtol=1e-7, atol=1e-8 * (1 + gscale), what="gradient at batch %d" % first_batch)
    # ---- Hessian: H.d against the directional FD of the returned gradient
    v2, g3, H = fcn.nll_grad_hessian({}, batch=None if case["batch"] == 65000 else max(case["batch"], 29))
    H = np.asarray(H, dtype=float)
    ctx.check(H.shape == (len(names), len(names)), "hessian_shape", str(H.shape))
    ctx.check(abs(float(v2) - v0) <= 1e-9 * max(1, abs(v0)), "value_with_hessian", "nll_grad_hessian()[0]=%.12g, fcn()=%.12g (model %s)" % (float(v2), v0, model))
    ctx.close(np.asarray(g3, dtype=float), g, "gradient_with_hessian", rtol=1e-7, atol=1e-8 * (1 + gscale), what="gradient returned with the Hessian")
    hscale = float(np.max(np.abs(H)))
    ctx.check(np.max(np.abs(H - H.T)) <= 1e-7 * (1 + hscale), "hessian_symmetric", "max asym %.3e" % float(np.max(np.abs(H - H.T))))
    fd_dirs = []
    for label, d in dirs:
        ref, err = dir_fd_vector(gvec, vm, names, x0, d)
        fd_dirs.append((label, d, ref, err))
        assert_close(ctx, H @ d, ref, err, hscale * float(np.max(np.abs(d))), "hessian", "model=%s H.d, %s" % (model, label))
    # ---- Hessian-vector product
    p = np.resize(np.asarray(case["pvec"], dtype=float), len(names))
    own_hessp = model in ("default", "extended", "cached_int", "cached_amp", "simple", "simple_clip")
    sig = None if own_hessp else "C07:grad_hessp:inherited_default_routine:model=%s" % model
    gp, hp = fcn.grad_hessp(x0, p, batch=None)
    gp, hp = np.asarray(gp, dtype=float), np.asarray(hp, dtype=float)
    refp, errp = dir_fd_vector(gvec, vm, names, x0, p)
    ctx.close(gp, g, "hessp_gradient", rtol=1e-7, atol=1e-8 * (1 + gscale), sig=sig, what="model=%s gradient returned by grad_hessp vs nll_grad (constraints %s)" % (model, list(nc.gauss)))
    assert_close(ctx, hp, refp, errp, hscale * float(np.max(np.abs(p))), "hessp", "model=%s grad_hessp()[1] (constraints %s)" % (model, list(nc.gauss)), sig=sig)
    # ---- bound-transformed wrappers in fit space
    if vm.bnd_dic:
        cls.append("bounded")
        xs = np.array(vm.get_all_val(True), dtype=float)
        wrap = vm.trans_fcn_grad(fcn.nll_grad)
        fx, gx = wrap(xs)
        gx = np.asarray(gx, dtype=float)
        ctx.check(abs(float(fx) - v0) <= 1e-8 * max(1, abs(v0)), "transformed_value", "trans_fcn_grad value %.12g vs %.12g" % (float(fx), v0))
        wh = vm.trans_f_grad_hess(fcn.nll_grad_hessian)
        fh, gh, Hh = wh(xs)
        Hh = np.asarray(Hh, dtype=float)
        wp = vm.trans_grad_hessp(fcn.grad_hessp)
        gpx, hpx = wp(xs, p)
        hpx = np.asarray(hpx, dtype=float)
        bidx = [i for i, n in enumerate(names) if n in vm.bnd_dic]
        xdirs = []
        for i in bidx[:1]:
            e = np.zeros(len(xs))
            e[i] = 1.0
            xdirs.append(("bounded coordinate %s" % names[i], e))
        if not ctx.quick:
            xdirs.append(("random direction", np.random.RandomState(case["seed"] % 2**31 + 5).uniform(-1, 1, size=len(xs))))
        fvalx = lambda x: float(wrap(x)[0])
        gvecx = lambda x: np.asarray(wrap(x)[1], dtype=float)
        for label, d in xdirs + [("p", p)]:
            t = 2e-4 * (1 + float(np.max(np.abs(xs)))) / max(float(np.max(np.abs(d))), 1e-12)
            vs, gs = [], []
            for tt in (t, t / 2):
                vs.append((fvalx(xs + tt * d) - fvalx(xs - tt * d)) / (2 * tt))
                gs.append((gvecx(xs + tt * d) - gvecx(xs - tt * d)) / (2 * tt))
            dref, derr = (4 * vs[1] - vs[0]) / 3, abs(vs[1] - vs[0])
            gref, gerr = (4 * gs[1] - gs[0]) / 3, np.abs(gs[1] - gs[0])
            if label != "p":
                assert_close(ctx, gx @ d, dref, derr, float(np.max(np.abs(gx))) * float(np.max(np.abs(d))), "transformed_gradient", "model=%s gradient in fit space, %s (bounds %s)" % (model, label, {k: str(v) for k, v in vm.bnd_dic.items()}))
                assert_close(ctx, Hh @ d, gref, gerr, float(np.max(np.abs(Hh))) * float(np.max(np.abs(d))), "transformed_hessian", "model=%s Hessian in fit space, %s" % (model, label))
            else:
                assert_close(ctx, hpx, gref, gerr, float(np.max(np.abs(Hh))) * float(np.max(np.abs(d))), "transformed_hessp", "model=%s trans_grad_hessp" % model, sig=sig)
        vm.set_all(xs, val_in_fit=True)
        set_point(vm, names, x0)
    if float_shape:
        cls.append("floating_mass_width")
    if nc.gauss:
        cls.append("gauss_constr")
    nt = len(names) >= 4 and (float_shape or bool(vm.bnd_dic)) and (model != "default" or bool(nc.gauss))
    return {"nontrivial": nt, "classes": cls}


def case_st(models):
    # small structures: the cost of a case is dominated by the number of eager
    # TensorFlow ops per evaluation (chains x decays), not by the sample size
    small = gen.structure(nfinal=3, max_chains=2, min_chains=2, spins=["0", "1/2", "0"])
    base = nllcase.case_strategy(models, nmax=(24, 8, 40), spec=small)
    return st.tuples(base, st.booleans(), st.lists(st.floats(-1, 1), min_size=4, max_size=4)).map(lambda t: dict(t[0], float_shape=t[1], pvec=t[2], n_sets=1 if t[0]["model"] in ("cached_int", "cached_amp", "cfit_cached") else t[0]["n_sets"]))


def run_models(ctx):
    groups = [["default", "extended"], ["cfit", "cfit_extended"], ["simple", "simple_clip", "cfit_cached"], ["cached_int", "cached_amp", "constr_frac"]]
    g = groups[ctx.shard % len(groups)]
    # every model of the group in every shard: each claimed model (and each
    # recorded finding) is exercised in every run
    for mdl in g:
        ctx.run_cases(derivatives, case_st([mdl]), ctx.n(16, 400), name="derivatives_%s" % mdl)


SUBCHECKS = [Sub("models", run_models, shards=(16, 16), budget=(300, 3000))]
