"""C03 - amplitudes superpose linearly; fit fractions obey the sum rule."""

import itertools
import math

import numpy as np
from hypothesis import strategies as st

from vlib import cards, env, gen, kin
from vlib.api import Sub, oracle

RULE = (
    "case = generated 3-body (and 4-body for linearity) structure with 2-4 chains incl. several resonances in one pairing and resonance names that are prefixes of each other, "
    "couplings drawn (incl. zero modulus and opposite-phase pairs), a drawn subset of chains, 40-90 integration events with optional weights, batch sizes {7, 13, n, n+40}; "
    "oracles: amplitude tensor of a subset == sum of single-chain tensors; scaling one coupling scales only its chain; fit fractions (old and FitFractions paths) == numpy evaluation from the per-chain tensors, "
    "sum rule == 1, independence of the batch size. non-trivial = >=3 chains, proper subset, batch not dividing n; distinct = hash of the case"
)
ASSUMPTIONS = [
    "fit-fraction clause asserted for resonance lists that partition the chains (every chain contains exactly one listed resonance): true for all generated 3-body cards",
    "tolerance 1e-9 relative on amplitude tensors and fractions",
]


def setup(case, nfinal=3):
    spec = case["spec"]
    # distinct resonance per chain, with ids that make names prefixes of each other
    ids = ["1", "11", "1b", "2"]
    for k, ch in enumerate(spec["chains"]):
        for r in ch["res"].values():
            r["id"] = ids[k % len(ids)]
    cfg, nm = gen.build(spec)
    config = cards.load(cfg)
    amp = config.get_amplitude()
    cards.assign_params(amp, case["pv"])
    dg = amp.decay_group
    # special coupling values
    setp = {}
    chains = dg.chains
    for k, mode in enumerate(case["cmode"][: len(chains)]):
        name = chains[k].total.name
        if mode == "zero":
            setp[name + "_0r"] = 0.0
        elif mode == "opposite" and k > 0:
            prev = chains[k - 1].total.name
            pr = amp.get_params()
            setp[name + "_0r"] = float(pr[prev + "_0r"])
            setp[name + "_0i"] = float(pr[prev + "_0i"]) + math.pi
    if setp:
        amp.set_params(setp)
    p = gen.events(spec, case["ev_seed"], case["n_ev"])
    data = config.data.cal_angle(p4=[np.asarray(x) for x in p])
    return spec, config, amp, dg, data, nm


def chain_tensors(dg, data):
    n = len(dg.chains)
    old = list(dg.chains_idx)
    out = []
    for k in range(n):
        dg.set_used_chains([k])
        out.append(np.asarray(dg.get_amp3(data)))
    dg.set_used_chains(old)
    return out


def dens(t):
    return np.sum(np.abs(t) ** 2, axis=tuple(range(1, t.ndim)))


@oracle
def superposition(ctx, case):
    spec, config, amp, dg, data, nm = setup(case)
    n = len(dg.chains)
    if n < 2:
        return {"skip": "fewer_than_two_chains"}
    A = chain_tensors(dg, data)
    scale = max(float(np.max(np.abs(a))) for a in A) + 1e-300
    full = np.asarray(dg.get_amp3(data))
    ctx.close(full, sum(A), "full_is_sum_of_chains", rtol=1e-9, atol=1e-12 * scale, what="full amplitude vs sum over %d chains" % n)
    ctx.close(np.asarray(amp(data)), dens(sum(A)), "density_is_abs2_of_sum", rtol=1e-9, atol=1e-12 * scale**2, what="density")
    # subset by chain index
    S = sorted({i % n for i in case["subset"]})
    dg.set_used_chains(S)
    sub = np.asarray(dg.get_amp3(data))
    ctx.check(list(dg.chains_idx) == S, "chains_idx_after_selection", "%s vs %s" % (dg.chains_idx, S))
    dg.set_used_chains(list(range(n)))
    ctx.close(sub, sum(A[i] for i in S), "subset_is_partial_sum", rtol=1e-9, atol=1e-12 * scale, what="subset %s" % S)
    # subset by resonance (names, particles and mixed with integer indices)
    res = list(amp.res)
    chain_of = {}
    for k, ch in enumerate(dg.chains):
        for r in ch.inner:
            chain_of.setdefault(str(r), set()).add(k)
    pick = sorted({i % len(res) for i in case["subset"]})
    for form in ("str", "obj"):
        sel = [str(res[i]) if form == "str" else res[i] for i in pick]
        amp.set_used_res(sel)
        got_idx = sorted(dg.chains_idx)
        want_idx = sorted(set().union(*[chain_of[str(res[i])] for i in pick]))
        ctx.check(got_idx == want_idx, "resonance_selection", "selecting %s (%s) activates chains %s, expected %s" % ([str(res[i]) for i in pick], form, got_idx, want_idx))
        sub2 = np.asarray(dg.get_amp3(data))
        ctx.close(sub2, sum(A[i] for i in want_idx), "resonance_subset_is_partial_sum", rtol=1e-9, atol=1e-12 * scale, what="resonances %s" % [str(res[i]) for i in pick])
    amp.set_used_res(res)
    ctx.check(sorted(dg.chains_idx) == list(range(n)), "all_resonances_select_all_chains", str(dg.chains_idx))
    # homogeneity in one coupling
    k = case["scale_chain"] % n
    lam_r, lam_p = case["lam"]
    name = dg.chains[k].total.name
    pr = amp.get_params()
    amp.set_params({name + "_0r": float(pr[name + "_0r"]) * lam_r, name + "_0i": float(pr[name + "_0i"]) + lam_p})
    B = chain_tensors(dg, data)
    lam = lam_r * np.exp(1j * lam_p)
    for i in range(n):
        if i == k:
            ctx.close(B[i], lam * A[i], "coupling_homogeneity", rtol=1e-9, atol=1e-12 * scale * max(1, lam_r), what="chain %d scaled by %s" % (i, lam))
        else:
            ctx.close(B[i], A[i], "other_chains_unchanged", rtol=1e-9, atol=1e-12 * scale, what="chain %d after scaling chain %d" % (i, k))
    cls = gen.describe(spec) + ["subset=%d/%d" % (len(S), n)]
    if "zero" in case["cmode"][:n]:
        cls.append("zero_coupling")
    return {"nontrivial": n >= 3 and 0 < len(S) < n, "classes": cls}


@oracle
def fit_fraction_rules(ctx, case):
    env.tfpwa()
    from tf_pwa.applications import fit_fractions
    from tf_pwa.fitfractions import cal_fitfractions_no_grad

    spec, config, amp, dg, data, nm = setup(case)
    n = len(dg.chains)
    if n < 2:
        return {"skip": "fewer_than_two_chains"}
    nev = case["n_ev"]
    w = None
    if case["weights"]:
        rng = np.random.RandomState(case["ev_seed"] % 2**31)
        w = rng.uniform(0.2, 2.0, size=nev)
        data["weight"] = w
    A = chain_tensors(dg, data)
    res = list(amp.res)
    chain_of = {}
    for k, ch in enumerate(dg.chains):
        for r in ch.inner:
            chain_of.setdefault(str(r), []).append(k)
    # partition requirement
    if any(len(v) != 1 for v in chain_of.values()) or len(chain_of) != n:
        return {"skip": "resonances_do_not_partition_chains"}
    ww = np.ones(nev) if w is None else w
    tot = float(np.sum(ww * dens(sum(A))))
    if tot <= 0:
        return {"skip": "zero_total"}
    ref = {}
    for i, ri in enumerate(res):
        Ai = A[chain_of[str(ri)][0]]
        ref[str(ri)] = float(np.sum(ww * dens(Ai))) / tot
        for j in range(i):
            Aj = A[chain_of[str(res[j])][0]]
            ref[(str(ri), str(res[j]))] = float(np.sum(ww * (dens(Ai + Aj) - dens(Ai) - dens(Aj)))) / tot
    ctx.check(abs(sum(ref.values()) - 1) < 1e-9, "harness_sum_rule", "reference itself does not sum to 1: %r" % sum(ref.values()))
    batches = [7, 13, nev, nev + 40]
    results = {}
    before = list(dg.chains_idx)
    for b in batches:
        frac, _ = fit_fractions(amp, data, batch=b, method="old", res=None if b == 7 else [str(r) for r in res])
        results[("old", b)] = dict(frac)
        # (the configuration loader always passes the resonance list explicitly)
        ff = fit_fractions(amp, data, batch=b, method="new", res=[str(r) for r in res])
        f2, _ = ff.get_frac(sum_diag=False)
        results[("new", b)] = dict(f2)
    fr3 = cal_fitfractions_no_grad(amp, data, batch=13)
    ctx.check(sorted(dg.chains_idx) == sorted(before), "selection_restored_after_fit_fractions", "%s vs %s" % (dg.chains_idx, before))
    for (method, b), frac in results.items():
        keys = [k for k in frac if k != "sum_diag"]
        ctx.check(set(keys) == set(ref), "fraction_keys", "%s batch %d: %s" % (method, b, sorted(map(str, set(keys) ^ set(ref)))))
        tot_f = sum(float(frac[k]) for k in keys)
        ctx.check(abs(tot_f - 1) < 1e-8, "sum_rule", "%s batch=%d: sum of single and interference fractions = %.12f" % (method, b, tot_f))
        for k in ref:
            ctx.check(abs(float(frac[k]) - ref[k]) <= 1e-8 * (1 + abs(ref[k])), "fraction_value", "%s batch=%d: FF[%s]=%.12g, reference %.12g" % (method, b, k, float(frac[k]), ref[k]))
    for i, ri in enumerate(res):
        ctx.check(abs(float(fr3[str(ri)]) - ref[str(ri)]) <= 1e-8 * (1 + abs(ref[str(ri)])), "fraction_value_no_grad", "FF[%s]" % ri)
        for j in range(i):
            key = "{}x{}".format(ri, res[j])
            ctx.check(abs(float(fr3[key]) - ref[(str(ri), str(res[j]))]) <= 1e-8 * (1 + abs(ref[(str(ri), str(res[j]))])), "fraction_value_no_grad", "FF[%s]" % key)
    cls = gen.describe(spec) + (["weighted"] if w is not None else []) + ["n_ev%%7=%d" % (nev % 7)]
    return {"nontrivial": n >= 3 and nev % 7 != 0 and nev % 13 != 0, "classes": cls}


def case_st(nfinal, fit=False):
    return st.fixed_dictionaries(
        {
            "spec": gen.structure(nfinal=nfinal, max_chains=4, min_chains=2),
            "pv": st.lists(st.floats(0.05, 0.95), min_size=8, max_size=8),
            "cmode": st.lists(st.sampled_from(["normal", "normal", "zero", "opposite"]), min_size=4, max_size=4),
            "ev_seed": st.integers(0, 2**31 - 1),
            "n_ev": st.integers(40, 90) if fit else st.integers(8, 30),
            "subset": st.lists(st.integers(0, 11), min_size=1, max_size=3),
            "scale_chain": st.integers(0, 5),
            "lam": st.tuples(st.floats(0.2, 3.0), st.floats(-3.0, 3.0)),
            "weights": st.booleans(),
        }
    )


def run_super(ctx):
    ctx.run_cases(superposition, case_st(3), ctx.n(200, 5000), name="superposition_3body")
    ctx.run_cases(superposition, case_st(4), ctx.n(80, 2000), name="superposition_4body")


def run_ff(ctx):
    ctx.run_cases(fit_fraction_rules, case_st(3, fit=True), ctx.n(40, 1200))


SUBCHECKS = [
    Sub("superposition", run_super, shards=(8, 8), budget=(250, 3000), weight=2),
    Sub("fit_fractions", run_ff, shards=(8, 8), budget=(280, 3000), weight=3),
]
