"""Core API used by every check module.

A check module (checks/cNN.py) defines oracles (functions ``f(ctx, case)`` over a
JSON-serialisable ``case``) and sub-checks (functions ``run(ctx)`` that drive
oracles with Hypothesis strategies or finite enumerations).

Oracle protocol
    * returns ``None`` or a dict ``{"nontrivial": bool, "classes": [str, ...],
      "skip": reason}``
    * raises :class:`Violation` when the property does not hold for the case
    * any other exception whose innermost frame lies in the code under test is
      converted to a ``library_exception`` violation; an exception raised from
      harness code is a harness error (exit 2), never a violation.
"""

import hashlib
import json
import signal
import math
import os
import sys
import time
import traceback
import zlib

REPO = os.environ.get("VERIF_REPO", "/repo")
VERIF = os.path.dirname(os.path.dirname(os.path.abspath(__file__)))


class Violation(Exception):
    def __init__(self, clause, detail="", signature=None):
        super().__init__("%s: %s" % (clause, detail))
        self.clause = clause
        self.detail = str(detail)[:2000]
        self.signature = signature or clause


class HarnessError(Exception):
    pass


class BudgetExhausted(Exception):
    pass


ORACLES = {}


def oracle(fn):
    """Register a replayable oracle under ``<module>.<name>``."""
    key = fn.__module__.split(".")[-1] + "." + fn.__name__
    fn.oracle_key = key
    ORACLES[key] = fn
    return fn


def run_pinned(ctx):
    """Replay tier: every saved (shrunk) failing case of a repaired defect under
    pinned/<ID>/*.json is evaluated again, without the generator."""
    import glob

    for f in sorted(glob.glob(os.path.join(VERIF, "pinned", ctx.prop, "*.json"))):
        with open(f) as fh:
            d = json.load(fh)
        if d.get("oracle") in ORACLES and "case" in d:
            ctx.eval(ORACLES[d["oracle"]], d["case"])
            ctx.count("pinned_regression_replayed")


class Sub:
    def __init__(self, name, run, shards=(4, 16), budget=(150, 1500), weight=1):
        self.name = name
        self.run = run
        self.shards = shards
        self.budget = budget
        self.weight = weight


def _json_default(o):
    try:
        import numpy as np

        if isinstance(o, np.ndarray):
            return o.tolist()
        if isinstance(o, (np.integer,)):
            return int(o)
        if isinstance(o, (np.floating,)):
            return float(o)
        if isinstance(o, (np.complexfloating, complex)):
            return {"re": float(o.real), "im": float(o.imag)}
        if isinstance(o, np.bool_):
            return bool(o)
    except ImportError:
        pass
    if isinstance(o, complex):
        return {"re": o.real, "im": o.imag}
    if isinstance(o, (set, frozenset)):
        return sorted(o, key=repr)
    if isinstance(o, tuple):
        return list(o)
    if isinstance(o, bytes):
        return o.hex()
    return repr(o)


def canon(case):
    return json.dumps(case, sort_keys=True, default=_json_default)


def jsonable(case):
    return json.loads(canon(case))


def abbreviate(obj, maxlen=12, depth=0):
    """Shorten long lists so evidence samples stay readable."""
    if isinstance(obj, dict):
        return {k: abbreviate(v, maxlen, depth + 1) for k, v in obj.items()}
    if isinstance(obj, list):
        if len(obj) > maxlen:
            head = [abbreviate(v, maxlen, depth + 1) for v in obj[:maxlen]]
            return head + ["... (%d items)" % len(obj)]
        return [abbreviate(v, maxlen, depth + 1) for v in obj]
    if isinstance(obj, float):
        return float("%.6g" % obj) if math.isfinite(obj) else repr(obj)
    return obj


def hash32(*parts):
    return zlib.crc32(":".join(str(p) for p in parts).encode()) & 0x7FFFFFFF


def _innermost_frames(tb):
    frames = traceback.extract_tb(tb)
    return frames


def classify_exception(exc):
    """Return ('library', where) if the innermost non-stdlib frame is in the
    code under test, else ('harness', where)."""
    frames = _innermost_frames(exc.__traceback__)
    repo = os.path.realpath(REPO) + os.sep
    verif = os.path.realpath(VERIF) + os.sep
    where = None
    for fr in reversed(frames):
        fn = os.path.realpath(fr.filename)
        if fn.startswith(repo):
            return "library", "%s:%s" % (
                os.path.relpath(fn, repo),
                fr.name,
            )
        if fn.startswith(verif):
            return "harness", "%s:%d" % (os.path.relpath(fn, verif), fr.lineno)
    return "harness", where or "unknown"


class CaseTimeout(BaseException):
    pass


def _on_alarm(signum, frame):
    raise CaseTimeout()


class Ctx:
    def __init__(
        self, prop, sub, tier, seed, shard, nshards, budget_s, known, replay=False
    ):
        self.prop = prop
        self.sub = sub
        self.tier = tier
        self.seed = seed
        self.shard = shard
        self.nshards = nshards
        self.t0 = time.time()
        self.deadline = self.t0 + budget_s
        self.known = known  # dict key -> entry (status known)
        self.replay = replay
        self.evaluations = 0
        self.nt_hashes = set()
        self.classes = {}
        self.samples = []
        self.violations = []
        self.known_hits = {}
        self.harness_errors = []
        self.skipped_budget = 0
        self.skips = {}
        self.exhaustive = {}
        self.stage_counts = {}
        self.notes = {}

    def case_timeout(self):
        """seconds one case may take (quick 240, thorough 900); 0 when replaying"""
        if self.replay or os.environ.get("VERIF_NO_CASE_TIMEOUT"):
            return 0
        return 240 if self.tier == "quick" else 900

    # ------------------------------------------------------------------ util
    def n(self, quick, thorough):
        """Per-shard number of cases for the tier."""
        tot = quick if self.tier == "quick" else thorough
        return max(1, int(math.ceil(tot / float(self.nshards))))

    @property
    def quick(self):
        return self.tier == "quick"

    def time_left(self):
        return self.deadline - time.time()

    def hseed(self, name):
        return hash32(self.seed, self.prop, self.sub, self.shard, name)

    def count(self, cls, k=1):
        self.classes[cls] = self.classes.get(cls, 0) + k

    def note(self, key, value):
        self.notes[key] = value

    # ----------------------------------------------------------- assertions
    def check(self, cond, clause, detail="", sig=None):
        if not cond:
            raise Violation(clause, detail, sig)

    def close(self, a, b, clause, rtol=1e-9, atol=0.0, sig=None, what=""):
        import numpy as np

        a = np.asarray(a)
        b = np.asarray(b)
        if a.shape != b.shape:
            try:
                a, b = np.broadcast_arrays(a, b)
            except ValueError:
                raise Violation(
                    clause, "%s shape %s != %s" % (what, a.shape, b.shape), sig
                )
        if not (np.all(np.isfinite(a)) and np.all(np.isfinite(b))):
            bad = ~(np.isfinite(a) & np.isfinite(b))
            if not np.array_equal(np.isnan(a), np.isnan(b)) or np.any(
                np.isinf(a) != np.isinf(b)
            ):
                raise Violation(
                    clause,
                    "%s non-finite mismatch at %d entries a=%s b=%s"
                    % (what, int(bad.sum()), a[bad][:3], b[bad][:3]),
                    sig,
                )
            a = np.where(bad, 0, a)
            b = np.where(bad, 0, b)
        err = np.abs(a - b)
        tol = atol + rtol * np.maximum(np.abs(a), np.abs(b))
        if np.any(err > tol):
            i = np.unravel_index(np.argmax(err - tol), err.shape)
            raise Violation(
                clause,
                "%s max|a-b|=%.3e tol=%.3e at %s a=%r b=%r"
                % (what, float(err[i]), float(tol[i] if np.ndim(tol) else tol), i, a[i], b[i]),
                sig,
            )
        return float(np.max(err)) if err.size else 0.0

    # ------------------------------------------------------------ evaluation
    def _is_known(self, sig):
        e = self.known.get(sig)
        return e is not None and e.get("status") == "known"

    def eval(self, fn, case, stage=None):
        """Evaluate one oracle on one case. Re-raises Violation for unknown
        violations (after recording)."""
        key = getattr(fn, "oracle_key", fn.__name__)
        self.evaluations += 1
        self.stage_counts[key] = self.stage_counts.get(key, 0) + 1
        limit = self.case_timeout()
        try:
            if limit:
                signal.signal(signal.SIGALRM, _on_alarm)
                signal.setitimer(signal.ITIMER_REAL, limit, 5.0)
            try:
                info = fn(self, case)
            finally:
                if limit:
                    signal.setitimer(signal.ITIMER_REAL, 0)
        except CaseTimeout:
            # a case that does not finish is inconclusive, never a violation
            # (no listed property is a liveness property); saved for diagnosis
            self.count("case_timeout_inconclusive")
            self.skips["case_timeout_inconclusive"] = self.skips.get("case_timeout_inconclusive", 0) + 1
            try:
                d = os.path.join(VERIF, "replays", self.prop)
                os.makedirs(d, exist_ok=True)
                with open(os.path.join(d, "timeout-%s-%s.json" % (key, hashlib.blake2b(canon(case).encode(), digest_size=6).hexdigest())), "w") as f:
                    json.dump({"property": self.prop, "oracle": key, "clause": "case_timeout", "case": jsonable(case), "limit_s": limit}, f, default=_json_default)
            except Exception:
                pass
            return {"skip": "case_timeout_inconclusive"}
        except Violation as v:
            self._record_violation(key, case, v)
            if self._is_known(v.signature):
                return None
            raise
        except HarnessError as e:
            self.harness_errors.append({"oracle": key, "where": "HarnessError", "traceback": str(e)[-2000:]})
            raise
        except BudgetExhausted:
            raise
        except (KeyboardInterrupt, SystemExit):
            raise
        except BaseException as e:  # noqa
            if type(e).__module__.startswith("hypothesis"):
                raise
            kind, where = classify_exception(e)
            tb = "".join(traceback.format_exception(type(e), e, e.__traceback__))[-3000:]
            if kind == "library":
                v = Violation(
                    "library_exception",
                    "%s: %s @ %s\n%s" % (type(e).__name__, str(e)[:300], where, tb[-1500:]),
                    "exc:%s:%s" % (type(e).__name__, where),
                )
                self._record_violation(key, case, v)
                if self._is_known(v.signature):
                    return None
                raise v
            self.harness_errors.append(
                {"oracle": key, "where": where, "traceback": tb, "case": abbreviate(jsonable(case))}
            )
            raise HarnessError(tb)
        if info:
            if info.get("skip"):
                r = info["skip"]
                self.skips[r] = self.skips.get(r, 0) + 1
            for c in info.get("classes", ()):
                self.count(c)
            if info.get("nontrivial"):
                h = hashlib.blake2b(
                    (key + canon(case)).encode(), digest_size=8
                ).hexdigest()
                if h not in self.nt_hashes:
                    self.nt_hashes.add(h)
                    if len(self.samples) < 3:
                        self.samples.append(
                            {"oracle": key, "case": abbreviate(jsonable(case)), "info": abbreviate(jsonable({k: v for k, v in info.items() if k not in ("nontrivial",)}))}
                        )
        return info

    def _record_violation(self, key, case, v):
        if self._is_known(v.signature):
            self.known_hits[v.signature] = self.known_hits.get(v.signature, 0) + 1
            return
        rec = {
            "property": self.prop,
            "sub": self.sub,
            "oracle": key,
            "clause": v.clause,
            "signature": v.signature,
            "detail": v.detail,
            "case": jsonable(case),
            "seed": self.seed,
            "shard": self.shard,
            "tier": self.tier,
        }
        # keep the latest failing case per (oracle, signature): with shrinking
        # the last one Hypothesis replays is the minimal one
        for i, old in enumerate(self.violations):
            if old["oracle"] == key and old["signature"] == v.signature:
                self.violations[i] = rec
                return
        self.violations.append(rec)

    # -------------------------------------------------------------- drivers
    def run_cases(self, fn, strategy, n, name=None, shrink=None):
        """Drive oracle ``fn`` with ``n`` Hypothesis-generated cases."""
        import hypothesis
        from hypothesis import HealthCheck, Phase, given, settings

        name = name or getattr(fn, "oracle_key", fn.__name__)
        if shrink is None:
            shrink = not self.quick
        phases = [Phase.explicit, Phase.generate]
        if shrink:
            phases.append(Phase.shrink)
        ctx = self
        # Hypothesis always generates the minimal example first.  When a
        # sub-check can only afford a handful of cases per shard, every shard
        # would spend one of them on the same minimal case: skip it there.
        skip_first = n <= 8
        state = {"calls": 0}
        if skip_first:
            n = n + 1

        @hypothesis.seed(self.hseed(name))
        @settings(
            max_examples=n,
            database=None,
            deadline=None,
            derandomize=False,
            report_multiple_bugs=False,
            suppress_health_check=list(HealthCheck),
            phases=phases,
            print_blob=False,
        )
        @given(strategy)
        def test(case):
            state["calls"] += 1
            if skip_first and state["calls"] == 1:
                ctx.count("minimal_first_example_skipped")
                return
            if time.time() > ctx.deadline:
                ctx.skipped_budget += 1
                return
            ctx.eval(fn, case)

        try:
            test()
        except Violation:
            pass
        except HarnessError:
            pass
        except BudgetExhausted:
            pass
        except Exception as e:  # hypothesis internal errors etc.
            tb = "".join(traceback.format_exception(type(e), e, e.__traceback__))[-3000:]
            self.harness_errors.append({"oracle": name, "where": "hypothesis", "traceback": tb})

    def run_enum(self, fn, cases, name=None, total=None, complete_flag=True):
        """Drive oracle over a finite enumeration; this shard handles the
        cases with index % nshards == shard."""
        name = name or getattr(fn, "oracle_key", fn.__name__)
        done_all = True
        nseen = 0
        for i, case in enumerate(cases):
            if i % self.nshards != self.shard:
                continue
            if time.time() > self.deadline:
                self.skipped_budget += 1
                done_all = False
                continue
            nseen += 1
            try:
                self.eval(fn, case)
            except Violation:
                # enumeration continues: collect every root cause
                if len(self.violations) > 20:
                    done_all = False
                    break
            except HarnessError:
                done_all = False
                break
        if complete_flag:
            self.exhaustive[name] = bool(done_all)
        return nseen

    def result(self):
        return {
            "sub": self.sub,
            "shard": self.shard,
            "evaluations": self.evaluations,
            "nt_hashes": sorted(self.nt_hashes),
            "classes": self.classes,
            "samples": self.samples,
            "violations": self.violations,
            "known_hits": self.known_hits,
            "harness_errors": self.harness_errors,
            "skipped_budget": self.skipped_budget,
            "skips": self.skips,
            "exhaustive": self.exhaustive,
            "stage_counts": self.stage_counts,
            "notes": self.notes,
            "wall_s": time.time() - self.t0,
        }
