"""Independent reference mathematics (never calls tf_pwa)."""

import math
from fractions import Fraction
from functools import lru_cache

import numpy as np


# ----------------------------------------------------------------- barrier
@lru_cache(maxsize=None)
def reverse_bessel_coeffs(L):
    """theta_L(x) = sum_k (L+k)! / ((L-k)! k! 2^k) x^(L-k); returns coefficient
    list c[j] of x^j (exact Fractions)."""
    c = [Fraction(0)] * (L + 1)
    for k in range(L + 1):
        c[L - k] = Fraction(math.factorial(L + k), math.factorial(L - k) * math.factorial(k) * 2**k)
    return tuple(c)


def theta_abs2(L, z):
    """|theta_L(i z)|^2 for real z (array)."""
    z = np.asarray(z, dtype=float)
    c = reverse_bessel_coeffs(L)
    x = 1j * z.astype(complex)
    val = np.zeros_like(x)
    for j, cj in enumerate(c):
        val = val + float(cj) * x**j
    return (val * np.conj(val)).real


@lru_cache(maxsize=None)
def theta_abs2_poly_in_z2(L):
    """Exact coefficients a[n] with |theta_L(i z)|^2 = sum_n a[n] z^(2n)."""
    c = reverse_bessel_coeffs(L)
    # theta(iz) = sum_j c_j i^j z^j ; real part: j even, imag: j odd
    re = [Fraction(0)] * (L + 1)
    im = [Fraction(0)] * (L + 1)
    for j, cj in enumerate(c):
        if j % 4 == 0:
            re[j] += cj
        elif j % 4 == 1:
            im[j] += cj
        elif j % 4 == 2:
            re[j] -= cj
        else:
            im[j] -= cj
    out = [Fraction(0)] * (2 * L + 1)
    for a in range(L + 1):
        for b in range(L + 1):
            out[a + b] += re[a] * re[b] + im[a] * im[b]
    assert all(out[k] == 0 for k in range(1, 2 * L + 1, 2))
    return tuple(out[0::2])


def theta_abs2_z2(L, z2):
    """|theta_L(i z)|^2 as a polynomial in z^2 - continues to negative z^2."""
    z2 = np.asarray(z2, dtype=float)
    a = theta_abs2_poly_in_z2(L)
    val = np.zeros_like(z2)
    for n in range(len(a) - 1, -1, -1):
        val = val * z2 + float(a[n])
    return val


def bprime(L, q, q0, d):
    return np.sqrt(theta_abs2_z2(L, (np.asarray(q0) * d) ** 2) / theta_abs2_z2(L, (np.asarray(q) * d) ** 2))


def gamma_running(m, g0, q, q0, L, m0, d):
    return g0 * (q / q0) ** (2 * L + 1) * (m0 / m) * bprime(L, q, q0, d) ** 2


def bw(m, m0, g0):
    return 1.0 / (m0 * m0 - m * m - 1j * m0 * g0)


def bwr(m, m0, g0, q, q0, L, d):
    g = gamma_running(m, g0, q, q0, L, m0, d)
    return 1.0 / (m0 * m0 - m * m - 1j * m0 * g)


def legendre(J, x):
    from numpy.polynomial import legendre as L

    c = np.zeros(J + 1)
    c[J] = 1.0
    return L.legval(x, c)


# ------------------------------------------------------------- Wigner d / CG
def _fact(n):
    return math.factorial(n)


@lru_cache(maxsize=None)
def _wigner_terms(j2, m2, n2):
    """Terms of the Wigner formula for d^j_{m n}(beta) (j2 = 2j etc.):
    d = sum_k coef_k cos(b/2)^(a_k) sin(b/2)^(b_k), exact rational coef^2."""
    jp_m = (j2 + m2) // 2
    jm_m = (j2 - m2) // 2
    jp_n = (j2 + n2) // 2
    jm_n = (j2 - n2) // 2
    pref2 = _fact(jp_m) * _fact(jm_m) * _fact(jp_n) * _fact(jm_n)
    terms = []
    # d^j_{m n}(b) = sum_k (-1)^(k-n+m) sqrt(...) / [(j+n-k)! k! (j-k-m)! (k-n+m)!]
    #                cos^(2j-2k+n-m) sin^(2k-n+m)
    mm = (m2 - n2) // 2  # m - n
    for k in range(0, j2 + 1):
        a = jp_n - k
        b = k
        c = jm_m - k
        dd = k + mm
        if a < 0 or b < 0 or c < 0 or dd < 0:
            continue
        den = _fact(a) * _fact(b) * _fact(c) * _fact(dd)
        sign = -1 if (dd % 2) else 1
        terms.append((sign, den, j2 - 2 * k - mm, 2 * k + mm))
    return pref2, tuple(terms)


def wigner_small_d(j2, m2, n2, beta):
    """d^j_{m n}(beta), Wigner's formula; convention of Rose / PDG:
    d^{1/2}_{1/2,-1/2} = -sin(b/2), d^1_{1,0} = -sin(b)/sqrt2."""
    beta = np.asarray(beta, dtype=float)
    pref2, terms = _wigner_terms(j2, m2, n2)
    c = np.cos(beta / 2)
    s = np.sin(beta / 2)
    tot = np.zeros_like(beta)
    for sign, den, pc, ps in terms:
        tot = tot + sign / den * c**pc * s**ps
    return math.sqrt(pref2) * tot


def wigner_small_d_mp(j2, m2, n2, beta, dps=40):
    import mpmath as mp

    mp.mp.dps = dps
    pref2, terms = _wigner_terms(j2, m2, n2)
    b = mp.mpf(beta)
    c = mp.cos(b / 2)
    s = mp.sin(b / 2)
    tot = mp.mpf(0)
    for sign, den, pc, ps in terms:
        tot += mp.mpf(sign) / den * c**pc * s**ps
    return mp.sqrt(pref2) * tot


def wigner_D(j2, alpha, beta, gamma):
    """D^j_{m n}(alpha,beta,gamma) = exp(-i m alpha) d^j_{mn}(beta) exp(-i n gamma);
    rows m = j..-j? -> we index m from -j to j ascending."""
    ms = list(range(-j2, j2 + 1, 2))
    D = np.zeros((len(ms), len(ms)), dtype=complex)
    for a, m2 in enumerate(ms):
        for b, n2 in enumerate(ms):
            D[a, b] = np.exp(-0.5j * m2 * alpha) * wigner_small_d(j2, m2, n2, beta) * np.exp(-0.5j * n2 * gamma)
    return D


def cg_exact2(j1, m1, j2, m2, J, M):
    """Clebsch-Gordan <j1 m1 j2 m2 | J M>; all arguments are DOUBLED integers.
    Returns (sign, Fraction) with value = sign*sqrt(Fraction)."""
    if m1 + m2 != M:
        return 0, Fraction(0)
    if J > j1 + j2 or J < abs(j1 - j2):
        return 0, Fraction(0)
    if (j1 + j2 + J) % 2:
        return 0, Fraction(0)
    if abs(m1) > j1 or abs(m2) > j2 or abs(M) > J:
        return 0, Fraction(0)
    if (j1 + m1) % 2 or (j2 + m2) % 2 or (J + M) % 2:
        return 0, Fraction(0)
    f = _fact
    h = lambda x: x // 2
    pref = Fraction(
        (J + 1) * f(h(J + j1 - j2)) * f(h(J - j1 + j2)) * f(h(j1 + j2 - J)),
        f(h(j1 + j2 + J) + 1),
    )
    pref *= f(h(J + M)) * f(h(J - M)) * f(h(j1 - m1)) * f(h(j1 + m1)) * f(h(j2 - m2)) * f(h(j2 + m2))
    s = Fraction(0)
    for k in range(0, h(j1 + j2 + J) + 2):
        a = [k, h(j1 + j2 - J) - k, h(j1 - m1) - k, h(j2 + m2) - k, h(J - j2 + m1) + k, h(J - j1 - m2) + k]
        if min(a) < 0:
            continue
        den = 1
        for x in a:
            den *= f(x)
        s += Fraction((-1) ** k, den)
    val2 = pref * s * s
    sign = 0 if s == 0 else (1 if s > 0 else -1)
    return sign, val2


def cg_float(j1, m1, j2, m2, J, M):
    """CG with PHYSICAL (possibly half-integer) arguments -> float."""
    d = lambda x: int(round(2 * x))
    sign, v2 = cg_exact2(d(j1), d(m1), d(j2), d(m2), d(J), d(M))
    return sign * math.sqrt(v2)


# ------------------------------------------------------------------- SU(2)
def su2_rz(a):
    return np.array([[np.exp(-0.5j * a), 0], [0, np.exp(0.5j * a)]])


def su2_ry(b):
    return np.array([[np.cos(b / 2), -np.sin(b / 2)], [np.sin(b / 2), np.cos(b / 2)]], dtype=complex)


def su2_boost_z(eta):
    """SL(2,C) boost along z with rapidity eta."""
    return np.array([[np.exp(eta / 2), 0], [0, np.exp(-eta / 2)]], dtype=complex)
