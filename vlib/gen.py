"""Shared generators of decay *cards* (configuration dicts) with spin.

A *structure spec* is plain JSON:

    {"top": {"J": "1/2", "P": 1, "mass": 5.6},
     "finals": [{"J": "1/2", "P": 1, "mass": 0.94}, ...],
     "chains": [ {"tree": [[0, 1], 2], "res": {"01": {"J": 1, "P": -1, "mass": .., "width": .., "id": 0, "model": "default"}},
                  "p_break_top": true}, ... ],
     "data": {...}, "identical": [[0, 1]]}

``tree`` is a nested list over final-state indices (binary); every internal
node except the root is a resonance slot keyed by its sorted leaf string.
Spins are strings ("1/2") or ints.  ``build`` turns a spec into the dict
ConfigLoader accepts, with per-case unique names.
"""

import copy
import itertools
from fractions import Fraction as F

import numpy as np
from hypothesis import strategies as st

from . import env

LETTERS = ["B", "C", "D", "E", "F"]


def fr(x):
    return F(x) if not isinstance(x, float) else F(x).limit_denominator(2)


def spin_out(x):
    x = fr(x)
    return int(x) if x.denominator == 1 else "%d/%d" % (x.numerator, x.denominator)


def frange(a, b):
    out = []
    x = F(a)
    while x <= b:
        out.append(x)
        x += 1
    return out


def allowed_ls(ja, jb, jc, pa, pb, pc, p_break):
    """Independent selection rule (same as the C13 oracle)."""
    ja, jb, jc = fr(ja), fr(jb), fr(jc)
    out = []
    for s in frange(abs(jb - jc), jb + jc):
        for l in frange(abs(ja - s), ja + s):
            if l.denominator != 1:
                continue
            if not p_break and (-1) ** int(l) != pa * pb * pc:
                continue
            out.append((int(l), s))
    return out


def leaves_of(tree):
    if isinstance(tree, int):
        return [tree]
    out = []
    for t in tree:
        out += leaves_of(t)
    return out


def node_key(tree):
    return "".join(str(i) for i in sorted(leaves_of(tree)))


def internal_nodes(tree, root=True):
    """yield (node, children) for every internal node, children first"""
    if isinstance(tree, int):
        return
    for t in tree:
        yield from internal_nodes(t, False)
    yield tree


TREES3 = [[[0, 1], 2], [[0, 2], 1], [[1, 2], 0]]
TREES4 = (
    [[[[a, b], c], d] for a, b, c, d in [(0, 1, 2, 3), (0, 1, 3, 2), (0, 2, 1, 3), (0, 2, 3, 1), (0, 3, 1, 2), (0, 3, 2, 1), (1, 2, 0, 3), (1, 2, 3, 0), (1, 3, 0, 2), (1, 3, 2, 0), (2, 3, 0, 1), (2, 3, 1, 0)]]
    + [[[0, 1], [2, 3]], [[0, 2], [1, 3]], [[0, 3], [1, 2]]]
)


def names_for(spec, sfx):
    n = len(spec["finals"])
    return {"top": "A" + sfx, "finals": [LETTERS[i] + sfx for i in range(n)]}


def res_name(key, rid, sfx):
    # the resonance id comes last so that ids like "1" and "11" give names
    # where one is a prefix of the other (as in D1_2430 / D1_2430p)
    return "R%s%s_%s" % (key, sfx, rid)


def build(spec, sfx=None):
    """spec -> (config dict, names)."""
    sfx = env.uniq() if sfx is None else sfx
    nm = names_for(spec, sfx)
    A, Fn = nm["top"], nm["finals"]
    particle = {
        "$top": {A: _pd(spec["top"])},
        "$finals": {Fn[i]: _pd(f) for i, f in enumerate(spec["finals"])},
    }
    decay = {}
    nm["res"] = {}
    nm["chains"] = []

    def pname(tree, ch, is_root):
        if isinstance(tree, int):
            return Fn[tree]
        if is_root:
            return A
        key = node_key(tree)
        r = ch["res"][key]
        name = res_name(key, r.get("id", 0), sfx)
        if name not in particle:
            particle[name] = _pd(r)
            nm["res"][name] = r
        return name

    for ch in spec["chains"]:
        inner = []
        for node in internal_nodes(ch["tree"]):
            is_root = node is ch["tree"]
            core = pname(node, ch, is_root)
            outs = [pname(t, ch, False) for t in node]
            if not is_root:
                inner.append(core)
            opts = {}
            if is_root and ch.get("p_break_top"):
                opts["p_break"] = True
            key = None if is_root else node_key(node)
            if key and ch["res"][key].get("dopts"):
                opts.update(ch["res"][key]["dopts"])
            if is_root and ch.get("dopts_top"):
                opts.update(ch["dopts_top"])
            line = list(outs) + ([opts] if opts else [])
            lines = decay.setdefault(core, [])
            if not any(l[:2] == line[:2] for l in lines):
                lines.append(line)
        nm["chains"].append(inner)
    data = {"dat_order": list(Fn)}
    data.update(spec.get("data", {}))
    if spec.get("identical"):
        # identical particles are declared by name in the data section
        data["identical_particles"] = [[Fn[i] for i in grp] for grp in spec["identical"]]
    cfg = {"data": data, "decay": decay, "particle": particle}
    for k in ("constrains",):
        if k in spec:
            cfg[k] = copy.deepcopy(spec[k])
    return cfg, nm


def _pd(p):
    d = {}
    for k, v in p.items():
        if k in ("id", "dopts", "frac"):
            continue
        d[k] = v
    return d


# ------------------------------------------------------------ strategies
FINAL_SPINS = ["0", "1/2", "1"]
MASS = st.sampled_from([0.13957, 0.49368, 0.93827, 0.3, 0.55, 1.1])


def _res_spins(leaf_spins, max2=5):
    """spin candidates for a node: half-integer iff odd number of
    half-integer leaves"""
    half = sum(1 for s in leaf_spins if fr(s).denominator == 2) % 2
    return [F(k, 2) for k in range(half, max2 + 1, 2)]


def complete_structure(draw_fn, nfinal, finals, top, trees, parity_conserving, rng):
    """Fill resonance quantum numbers for the given trees so that every chain
    has at least one allowed (l,s) at every vertex.  ``rng`` is a numpy
    RandomState seeded from a Hypothesis-drawn integer."""
    M = top["mass"]
    chains = []
    for t_i, tree in enumerate(trees):
        for attempt in range(40):
            res = {}
            ok = True
            jp = {}

            def jp_of(node):
                if isinstance(node, int):
                    return fr(finals[node]["J"]), finals[node]["P"]
                return jp[node_key(node)]

            nodes = list(internal_nodes(tree))
            for node in nodes[:-1]:
                key = node_key(node)
                lv = leaves_of(node)
                cands = _res_spins([finals[i]["J"] for i in lv])
                J = cands[rng.randint(len(cands))]
                (j1, p1), (j2, p2) = jp_of(node[0]), jp_of(node[1])
                P = 1 if rng.randint(2) else -1
                if not allowed_ls(J, j1, j2, P, p1, p2, False):
                    P = -P
                if not allowed_ls(J, j1, j2, P, p1, p2, False):
                    ok = False
                    break
                jp[key] = (J, P)
                lo = sum(finals[i]["mass"] for i in lv)
                hi = M - sum(finals[i]["mass"] for i in range(nfinal) if i not in lv)
                frac = 0.15 + 0.7 * rng.uniform()
                res[key] = {"J": spin_out(J), "P": P, "mass": float(lo + (hi - lo) * frac), "width": float(0.03 + 0.3 * rng.uniform()), "id": t_i}
            if not ok:
                continue
            root = nodes[-1]
            (j1, p1), (j2, p2) = jp_of(root[0]), jp_of(root[1])
            strong = bool(allowed_ls(top["J"], j1, j2, top["P"], p1, p2, False))
            weak = bool(allowed_ls(top["J"], j1, j2, top["P"], p1, p2, True))
            if parity_conserving and not strong:
                continue
            if not weak:
                continue
            chains.append({"tree": tree, "res": res, "p_break_top": (not parity_conserving) and (not strong or bool(rng.randint(2)))})
            break
    return chains


@st.composite
def structure(draw, nfinal=3, max_chains=3, min_chains=1, parity_conserving=None, spins=None, need_spin=False, trees=None):
    """A 3- or 4-body structure spec with consistent fermion number."""
    spins = spins or FINAL_SPINS
    fs = [draw(st.sampled_from(spins)) for _ in range(nfinal)]
    if need_spin and all(s == "0" for s in fs):
        fs[draw(st.integers(0, nfinal - 1))] = draw(st.sampled_from([s for s in spins if s != "0"] or ["1"]))
    nhalf = sum(1 for s in fs if "/" in s)
    top_cands = ["1/2", "3/2"] if nhalf % 2 else ["0", "1"]
    top_J = draw(st.sampled_from(top_cands))
    masses = [draw(MASS) for _ in range(nfinal)]
    finals = [{"J": spin_out(fs[i]), "P": draw(st.sampled_from([1, -1])), "mass": masses[i]} for i in range(nfinal)]
    Q = draw(st.floats(0.8, 2.5))
    top = {"J": spin_out(top_J), "P": draw(st.sampled_from([1, -1])), "mass": float(sum(masses) + Q)}
    pool = trees or (TREES3 if nfinal == 3 else TREES4)
    nch = draw(st.integers(min_chains, max_chains))
    idx = draw(st.lists(st.integers(0, len(pool) - 1), min_size=nch, max_size=nch))
    trees = [pool[i] for i in idx]
    if parity_conserving is None:
        pc = draw(st.booleans())
    else:
        pc = parity_conserving
    seed = draw(st.integers(0, 2**31 - 1))
    rng = np.random.RandomState(seed)
    chains = complete_structure(None, nfinal, finals, top, trees, pc, rng)
    if len(chains) < min_chains and pc:
        # parity-conserving completion failed for this top parity: flip it once
        top["P"] = -top["P"]
        rng = np.random.RandomState(seed)
        chains = complete_structure(None, nfinal, finals, top, trees, pc, rng)
    if len(chains) < min_chains:
        rng = np.random.RandomState(seed)
        chains = complete_structure(None, nfinal, finals, top, trees, False, rng)
        pc = False
    return {"top": top, "finals": finals, "chains": chains, "parity_conserving": bool(pc and all(not c["p_break_top"] for c in chains)), "rseed": seed}


def describe(spec):
    """classes for evidence"""
    cls = ["%d-body" % len(spec["finals"]), "chains=%d" % len(spec["chains"])]
    js = [fr(f["J"]) for f in spec["finals"]] + [fr(spec["top"]["J"])]
    if any(j.denominator == 2 for j in js):
        cls.append("half_integer_spin")
    if any(fr(f["J"]) > 0 for f in spec["finals"]):
        cls.append("final_spin")
    if any(c.get("p_break_top") for c in spec["chains"]):
        cls.append("p_break")
    topo = {node_key(list(internal_nodes(c["tree"]))[0]) + str(len(leaves_of(c["tree"][0]))) for c in spec["chains"]}
    if len({str(c["tree"]) for c in spec["chains"]}) >= 2:
        cls.append("multi_topology")
    return cls


def events(spec, ev_seed, n, moving=None):
    """physical events for the spec from the harness's own sequential
    generator (independent of tf_pwa.phasespace)."""
    from . import kin

    rng = np.random.RandomState(ev_seed % (2**31))
    m = [f["mass"] for f in spec["finals"]]
    u = rng.uniform(0.02, 0.98, size=(n, 3 * len(m)))
    p = kin.gen_n_body(spec["top"]["mass"], m, u)
    if moving is not None:
        p = [kin.boost(x, np.asarray(moving, dtype=float)) for x in p]
    return p
