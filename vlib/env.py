"""Process environment for workers: code under test = /repo working tree."""

import itertools
import os
import sys

from .api import REPO, HarnessError

_state = {"tf": None}

import numpy as _numpy

if not hasattr(_numpy, "Inf"):
    # NumPy>=2 compatibility shim for tf_pwa/fit_improve.py (harness process
    # only, see DESIGN 0.1); installed at import so that no import order in a
    # check can trip over it
    _numpy.Inf = _numpy.inf


def setup_paths():
    if REPO not in sys.path[:1]:
        sys.path.insert(0, REPO)


def tfpwa():
    """Import TensorFlow + tf_pwa from /repo (with the NumPy-2 shim) once."""
    if _state["tf"] is not None:
        return _state["tf"]
    setup_paths()
    import numpy

    if not hasattr(numpy, "Inf"):
        numpy.Inf = numpy.inf  # NumPy>=2 compatibility shim, harness process only
    # TensorFlow's C++ start-up chatter goes to fd 2 before any Python-level
    # switch applies; silence it for the import only.
    devnull = os.open(os.devnull, os.O_WRONLY)
    saved = os.dup(2)
    try:
        os.dup2(devnull, 2)
        import tensorflow as tf
    finally:
        os.dup2(saved, 2)
        os.close(saved)
        os.close(devnull)

    try:
        tf.config.threading.set_intra_op_parallelism_threads(1)
        tf.config.threading.set_inter_op_parallelism_threads(1)
    except Exception:
        pass
    import tf_pwa

    here = os.path.realpath(os.path.dirname(tf_pwa.__file__))
    if not here.startswith(os.path.realpath(REPO) + os.sep):
        raise HarnessError("tf_pwa imported from %s, not from %s" % (here, REPO))
    import logging

    logging.getLogger("tensorflow").setLevel(logging.ERROR)
    logging.getLogger().setLevel(logging.ERROR)
    _state["tf"] = tf
    return tf


def plain_tfpwa():
    """Import tf_pwa pure-python modules without forcing TF configuration."""
    setup_paths()
    import numpy

    if not hasattr(numpy, "Inf"):
        numpy.Inf = numpy.inf


setup_paths()  # at import: no later `import tf_pwa` can resolve to another checkout

_counter = itertools.count()


def uniq():
    """Per-process unique suffix for particle names (name-keyed caches in the
    code under test must never couple two generated cases)."""
    return "u%dx%d" % (os.getpid() % 100000, next(_counter))
