"""Independent numpy kinematics (reference side; never calls tf_pwa).

Four-vectors are arrays (..., 4) with components (E, px, py, pz), the layout
tf_pwa uses.
"""

import numpy as np


def mass2(p):
    p = np.asarray(p, dtype=float)
    return p[..., 0] ** 2 - p[..., 1] ** 2 - p[..., 2] ** 2 - p[..., 3] ** 2


def mass(p):
    return np.sqrt(np.maximum(mass2(p), 0.0))


def mdot(a, b):
    a = np.asarray(a, dtype=float)
    b = np.asarray(b, dtype=float)
    return a[..., 0] * b[..., 0] - np.sum(a[..., 1:] * b[..., 1:], axis=-1)


def boost(p, beta):
    """Active boost of p by velocity beta (..., 3): a particle at rest acquires
    velocity beta."""
    p = np.asarray(p, dtype=float)
    beta = np.asarray(beta, dtype=float)
    b2 = np.sum(beta * beta, axis=-1)
    gamma = 1.0 / np.sqrt(1.0 - b2)
    bp = np.sum(beta * p[..., 1:], axis=-1)
    with np.errstate(divide="ignore", invalid="ignore"):
        g2 = np.where(b2 > 0, (gamma - 1.0) / np.where(b2 > 0, b2, 1.0), 0.0)
    e = gamma * (p[..., 0] + bp)
    vec = p[..., 1:] + (g2 * bp)[..., None] * beta + (gamma * p[..., 0])[..., None] * beta
    return np.concatenate([e[..., None], vec], axis=-1)


def boost_to_rest_of(p, ref):
    """Boost p into the rest frame of ref."""
    ref = np.asarray(ref, dtype=float)
    beta = -ref[..., 1:] / ref[..., 0:1]
    return boost(p, beta)


def rotation_matrix(axis, angle):
    axis = np.asarray(axis, dtype=float)
    axis = axis / np.linalg.norm(axis)
    x, y, z = axis
    c, s = np.cos(angle), np.sin(angle)
    C = 1 - c
    return np.array(
        [
            [c + x * x * C, x * y * C - z * s, x * z * C + y * s],
            [y * x * C + z * s, c + y * y * C, y * z * C - x * s],
            [z * x * C - y * s, z * y * C + x * s, c + z * z * C],
        ]
    )


def euler_matrix(alpha, beta, gamma):
    """R = Rz(alpha) Ry(beta) Rz(gamma)."""
    def rz(a):
        return np.array([[np.cos(a), -np.sin(a), 0], [np.sin(a), np.cos(a), 0], [0, 0, 1.0]])

    def ry(b):
        return np.array([[np.cos(b), 0, np.sin(b)], [0, 1.0, 0], [-np.sin(b), 0, np.cos(b)]])

    return rz(alpha) @ ry(beta) @ rz(gamma)


def rotate(p, R):
    p = np.asarray(p, dtype=float)
    vec = p[..., 1:] @ np.asarray(R).T
    return np.concatenate([p[..., 0:1], vec], axis=-1)


def parity(p):
    p = np.asarray(p, dtype=float)
    return np.concatenate([p[..., 0:1], -p[..., 1:]], axis=-1)


def kallen(a, b, c):
    return a * a + b * b + c * c - 2 * a * b - 2 * b * c - 2 * c * a


def two_body_p(m0, m1, m2):
    """Break-up momentum; real for m0 >= m1 + m2."""
    lam = (m0 - m1 - m2) * (m0 + m1 + m2) * (m0 - m1 + m2) * (m0 + m1 - m2)
    return np.sqrt(np.maximum(lam, 0.0)) / (2 * m0)


def two_body_p2(m0, m1, m2):
    lam = (m0 - m1 - m2) * (m0 + m1 + m2) * (m0 - m1 + m2) * (m0 + m1 - m2)
    return lam / (4 * m0 * m0)


def unit(costh, phi):
    s = np.sqrt(np.maximum(1 - costh * costh, 0.0))
    return np.stack([s * np.cos(phi), s * np.sin(phi), costh], axis=-1)


def decay_two_body(parent, m1, m2, costh, phi):
    """Decay ``parent`` (..., 4) into masses m1, m2 with direction (costh, phi)
    of daughter 1 in the parent rest frame, axes = lab axes (pure boost)."""
    parent = np.asarray(parent, dtype=float)
    m0 = mass(parent)
    q = two_body_p(m0, m1, m2)
    n = unit(np.asarray(costh, dtype=float), np.asarray(phi, dtype=float))
    e1 = np.sqrt(q * q + m1 * m1)
    e2 = np.sqrt(q * q + m2 * m2)
    p1 = np.concatenate([e1[..., None], q[..., None] * n], axis=-1)
    p2 = np.concatenate([e2[..., None], -q[..., None] * n], axis=-1)
    beta = parent[..., 1:] / parent[..., 0:1]
    return boost(p1, beta), boost(p2, beta)


def at_rest(m, n):
    p = np.zeros((n, 4))
    p[:, 0] = m
    return p


def gen_three_body(M, m, u):
    """Three-body events from unit-cube coordinates u (n, 5):
    pair (0,1) mass fraction, cos/phi of the pair, cos/phi of particle 0 in the
    pair frame. Covers the whole Dalitz region (not flat). Returns list of 3
    arrays (n, 4), parent at rest."""
    u = np.asarray(u, dtype=float)
    n = u.shape[0]
    lo, hi = m[0] + m[1], M - m[2]
    m01 = lo + (hi - lo) * u[:, 0]
    top = at_rest(M, n)
    p01, p2 = decay_two_body(top, m01, m[2], 2 * u[:, 1] - 1, 2 * np.pi * u[:, 2] - np.pi)
    # force exact invariant mass of the pair
    p0, p1 = decay_two_body(p01, m[0], m[1], 2 * u[:, 3] - 1, 2 * np.pi * u[:, 4] - np.pi)
    return [p0, p1, p2]


def gen_n_body(M, masses, u):
    """Sequential n-body events: parent -> (rest) + last, recursively.
    u: (n_events, 3*(n-1)-1 >= ...) unit-cube numbers; uses 3 per split
    (mass fraction, cos, phi) except the last split (2)."""
    u = np.asarray(u, dtype=float)
    nev = u.shape[0]
    masses = list(masses)
    parent = at_rest(M, nev)
    out = [None] * len(masses)
    k = 0
    cur_mass = np.full(nev, float(M))
    for i in range(len(masses) - 1, 0, -1):
        rest_min = sum(masses[:i])
        if i == 1:
            m_rest = np.full(nev, masses[0])
        else:
            hi = cur_mass - masses[i]
            m_rest = rest_min + (hi - rest_min) * u[:, k]
            k += 1
        pr, pi_ = decay_two_body(parent, m_rest, masses[i], 2 * u[:, k] - 1, 2 * np.pi * u[:, k + 1] - np.pi)
        k += 2
        out[i] = pi_
        parent = pr
        cur_mass = m_rest
    out[0] = parent
    return out


def helicity_cos(p_x, p_pair, p_top):
    """cos of the angle between p_x in the pair rest frame and the pair's
    direction in the rest frame of p_top."""
    pair_in_top = boost_to_rest_of(p_pair, p_top)
    x_in_top = boost_to_rest_of(p_x, p_top)
    x_in_pair = boost_to_rest_of(x_in_top, pair_in_top)
    a = x_in_pair[..., 1:]
    b = pair_in_top[..., 1:]
    return np.sum(a * b, axis=-1) / np.sqrt(np.sum(a * a, axis=-1) * np.sum(b * b, axis=-1))
