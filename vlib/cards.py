"""Building tf_pwa configurations (dict form) from JSON *specs*.

A spec is a plain-JSON description drawn by Hypothesis; ``card3``/``card4``
turn it into the dict accepted by ``ConfigLoader`` using per-case unique
particle names (see DESIGN 0.2).
"""

import copy

import numpy as np

from . import env

FINAL_LETTERS = ["B", "C", "D", "E", "F"]


def names3(sfx, nres, nfinal=3):
    return {
        "top": "A" + sfx,
        "finals": [FINAL_LETTERS[i] + sfx for i in range(nfinal)],
        "res": ["R%d%s" % (k, sfx) for k in range(nres)],
    }


def _pdict(p, extra=None):
    d = {}
    for k, v in p.items():
        if k in ("pair", "popts", "dopts_top", "dopts_res", "slot", "children"):
            continue
        d[k] = v
    d.update(p.get("popts", {}))
    if extra:
        d.update(extra)
    return d


def card3(spec, sfx=None):
    """3-body card: A -> R_k S, R_k -> X Y."""
    sfx = env.uniq() if sfx is None else sfx
    nm = names3(sfx, len(spec["res"]))
    A = nm["top"]
    F = nm["finals"]
    decay = {A: []}
    particle = {
        "$top": {A: _pdict(spec["top"])},
        "$finals": {F[i]: _pdict(spec["finals"][i]) for i in range(3)},
    }
    for k, r in enumerate(spec["res"]):
        R = nm["res"][k]
        i, j = r["pair"]
        s = [x for x in range(3) if x not in (i, j)][0]
        line = [R, F[s]]
        if r.get("dopts_top"):
            line.append(dict(r["dopts_top"]))
        decay[A].append(line)
        line2 = [F[i], F[j]]
        if r.get("dopts_res"):
            line2.append(dict(r["dopts_res"]))
        decay[R] = [line2]
        particle[R] = _pdict(r)
    data = {"dat_order": list(F)}
    data.update(spec.get("data", {}))
    cfg = {"data": data, "decay": decay, "particle": particle}
    for k in ("constrains", "plot"):
        if k in spec:
            cfg[k] = copy.deepcopy(spec[k])
    return cfg, nm


def load(cfg, **kw):
    env.tfpwa()
    from tf_pwa.config_loader import ConfigLoader

    return ConfigLoader(copy.deepcopy(cfg), **kw)


def chain_total_names(amp):
    """Variable base-name of every chain's total coupling, in chain order."""
    return [ch.total.name for ch in amp.decay_group.chains]


def assign_params(amp, pv, only_trainable=True, r_range=(0.3, 2.0)):
    """Deterministically map the unit-interval list ``pv`` onto the model's
    free parameters *by sorted name*: polar radii -> [r_range], phases ->
    (-pi, pi], everything else left alone (masses/widths are set by the card).
    Returns the dict that was applied."""
    names = sorted(amp.vm.trainable_vars) if only_trainable else sorted(amp.vm.variables)
    val = {}
    k = 0
    for n in names:
        if n.endswith("r"):
            val[n] = r_range[0] + (r_range[1] - r_range[0]) * pv[k % len(pv)]
            k += 1
        elif n.endswith("i"):
            val[n] = (2 * pv[k % len(pv)] - 1) * np.pi
            k += 1
    amp.set_params(val)
    return val


def density(config, amp, p4list):
    data = config.data.cal_angle(p4=[np.asarray(p) for p in p4list])
    return np.asarray(amp(data)), data
