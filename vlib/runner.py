"""Driver: ./check <ID> [--tier quick|thorough] [--replay FILE]

exit 0  property held on everything explored (KNOWN-FINDING lines allowed)
exit 1  a violation was found: line ``VIOLATION property=<ID> replay=<path>``
exit 2  harness / infrastructure error (never a violation)
"""

import argparse
import concurrent.futures as cf
import hashlib
import importlib
import json
import multiprocessing
import os
import shutil
import sys
import tempfile
import time
import traceback

from .api import VERIF, Ctx, HarnessError, ORACLES, Violation, abbreviate, canon

WATCHDOG = {"quick": 20 * 60, "thorough": 3 * 3600}


def load_known(prop):
    path = os.path.join(VERIF, "known_findings.json")
    if not os.path.exists(path):
        return {}
    with open(path) as f:
        data = json.load(f)
    out = {}
    for e in data.get("findings", []):
        if e.get("property") == prop and e.get("status") == "known":
            out[e["key"]] = e
    return out


def load_check(prop):
    mod = importlib.import_module("checks." + prop.lower())
    return mod


def _worker_init(scratch_root):
    os.environ.setdefault("PYTHONHASHSEED", "0")
    d = tempfile.mkdtemp(prefix="w%d_" % os.getpid(), dir=scratch_root)
    os.chdir(d)
    if not os.environ.get("VERIF_DEBUG"):
        # TensorFlow's C++ runtime chatter; Python tracebacks travel in results
        dn = os.open(os.devnull, os.O_WRONLY)
        os.dup2(dn, 2)
        os.dup2(dn, 1)  # the library prints progress / results; ours travel as return values
        os.close(dn)
    sys.setrecursionlimit(max(sys.getrecursionlimit(), 3000))


def _worker_task(args):
    prop, sub_name, tier, seed, shard, nshards, budget, known = args
    t0 = time.time()
    try:
        mod = load_check(prop)
        sub = [s for s in mod.SUBCHECKS if s.name == sub_name][0]
        ctx = Ctx(prop, sub_name, tier, seed, shard, nshards, budget, known)
        try:
            sub.run(ctx)
        except Violation:
            pass
        except HarnessError:
            pass
        except BaseException as e:  # noqa
            tb = "".join(traceback.format_exception(type(e), e, e.__traceback__))[-4000:]
            ctx.harness_errors.append({"oracle": sub_name, "where": "sub.run", "traceback": tb})
        return ctx.result()
    except BaseException as e:  # noqa
        tb = "".join(traceback.format_exception(type(e), e, e.__traceback__))[-4000:]
        return {
            "sub": sub_name,
            "shard": shard,
            "evaluations": 0,
            "nt_hashes": [],
            "classes": {},
            "samples": [],
            "violations": [],
            "known_hits": {},
            "harness_errors": [{"oracle": sub_name, "where": "worker", "traceback": tb}],
            "skipped_budget": 0,
            "skips": {},
            "exhaustive": {},
            "stage_counts": {},
            "notes": {},
            "wall_s": time.time() - t0,
        }


def write_replay(prop, rec):
    d = os.path.join(VERIF, "replays", prop)
    os.makedirs(d, exist_ok=True)
    h = hashlib.sha1(canon(rec["case"]).encode() + rec["oracle"].encode()).hexdigest()[:12]
    path = os.path.join(d, "%s-%s.json" % (rec["oracle"].replace(".", "_"), h))
    with open(path, "w") as f:
        json.dump(rec, f, indent=1, sort_keys=True)
    return os.path.relpath(path, VERIF)


def do_replay(prop, path, known):
    with open(path) as f:
        rec = json.load(f)
    load_check(prop)
    key = rec["oracle"]
    if key not in ORACLES:
        print("unknown oracle %s" % key)
        return 2
    scratch = tempfile.mkdtemp(prefix="verif_replay_")
    cwd = os.getcwd()
    os.chdir(scratch)
    ctx = Ctx(prop, rec.get("sub", "replay"), "quick", rec.get("seed", 0), 0, 1, 3600, known, replay=True)
    try:
        try:
            ctx.eval(ORACLES[key], rec["case"])
        except Violation as v:
            print("replayed: clause=%s\n%s" % (v.clause, v.detail))
            print("VIOLATION property=%s replay=%s" % (prop, path))
            return 1
        except HarnessError as e:
            print("HARNESS ERROR during replay:\n%s" % e)
            return 2
        for sig, n in ctx.known_hits.items():
            print("KNOWN-FINDING: property=%s %s" % (prop, known[sig]["what"]))
        print("replay: no violation")
        return 0
    finally:
        os.chdir(cwd)
        shutil.rmtree(scratch, ignore_errors=True)


def main(argv=None):
    ap = argparse.ArgumentParser()
    ap.add_argument("prop")
    ap.add_argument("--tier", default=os.environ.get("VERIF_TIER", "quick"), choices=["quick", "thorough"])
    ap.add_argument("--seed", type=int, default=None)
    ap.add_argument("--replay", default=None)
    ap.add_argument("--only", default=None, help="comma separated sub-check names")
    ap.add_argument("--workers", type=int, default=int(os.environ.get("VERIF_WORKERS", "16")))
    ap.add_argument("--no-evidence", action="store_true")
    args = ap.parse_args(argv)
    prop = args.prop.upper()
    seed = args.seed
    if seed is None:
        try:
            seed = int(os.environ.get("VERIF_SEED", "1"))
        except ValueError:
            seed = 1
    tier = args.tier
    t0 = time.time()
    known = load_known(prop)

    if args.replay:
        return do_replay(prop, args.replay, known)

    try:
        mod = load_check(prop)
    except Exception:
        traceback.print_exc()
        print("HARNESS ERROR: cannot import check module for %s" % prop)
        return 2
    subs = list(mod.SUBCHECKS)
    if args.only:
        want = set(args.only.split(","))
        subs = [s for s in subs if s.name in want]
    ti = 0 if tier == "quick" else 1
    tasks = []
    for s in subs:
        ns = s.shards[ti]
        for sh in range(ns):
            tasks.append((s.weight, (prop, s.name, tier, seed, sh, ns, s.budget[ti], known)))
    tasks.sort(key=lambda t: -t[0])
    tasks = [t[1] for t in tasks]
    scratch_root = tempfile.mkdtemp(prefix="verif_%s_" % prop)
    results = []
    infra = []
    nwork = max(1, min(args.workers, len(tasks)))
    ctxmp = multiprocessing.get_context("spawn")
    try:
        with cf.ProcessPoolExecutor(max_workers=nwork, mp_context=ctxmp, initializer=_worker_init, initargs=(scratch_root,)) as ex:
            futs = {ex.submit(_worker_task, t): t for t in tasks}
            try:
                for fu in cf.as_completed(futs, timeout=WATCHDOG[tier]):
                    try:
                        results.append(fu.result())
                    except Exception as e:  # BrokenProcessPool etc.
                        infra.append("worker failure for %s: %r" % (futs[fu][1:5], e))
            except cf.TimeoutError:
                infra.append("watchdog: %d s exceeded" % WATCHDOG[tier])
                for fu in futs:
                    fu.cancel()
                for p in list(getattr(ex, "_processes", {}).values()):
                    try:
                        p.terminate()
                    except Exception:
                        pass
    finally:
        shutil.rmtree(scratch_root, ignore_errors=True)

    # ------------------------------------------------------------ aggregate
    evaluations = sum(r["evaluations"] for r in results)
    nt = set()
    classes = {}
    skips = {}
    samples = []
    violations = []
    known_hits = {}
    herr = []
    skipped_budget = 0
    per_sub = {}
    exhaustive = {}
    stage_counts = {}
    notes = {}
    for r in sorted(results, key=lambda r: (r["sub"], r["shard"])):
        nt.update(r["nt_hashes"])
        for k, v in r["classes"].items():
            classes[k] = classes.get(k, 0) + v
        for k, v in r["skips"].items():
            skips[k] = skips.get(k, 0) + v
        for k, v in r["stage_counts"].items():
            stage_counts[k] = stage_counts.get(k, 0) + v
        for k, v in r["known_hits"].items():
            known_hits[k] = known_hits.get(k, 0) + v
        for k, v in r["exhaustive"].items():
            exhaustive[k] = exhaustive.get(k, True) and v
        for k, v in r["notes"].items():
            notes.setdefault(k, v)
        ps = per_sub.setdefault(r["sub"], {"evaluations": 0, "nontrivial": 0, "wall_s_max": 0.0, "shards": 0, "skipped_budget": 0})
        ps["evaluations"] += r["evaluations"]
        ps["nontrivial"] += len(r["nt_hashes"])
        ps["wall_s_max"] = round(max(ps["wall_s_max"], r["wall_s"]), 1)
        ps["shards"] += 1
        ps["skipped_budget"] += r["skipped_budget"]
        if len([s for s in samples if s.get("sub") == r["sub"]]) < 2:
            for s in r["samples"][:2]:
                s = dict(s)
                s["sub"] = r["sub"]
                samples.append(s)
        violations.extend(r["violations"])
        herr.extend(r["harness_errors"])
        skipped_budget += r["skipped_budget"]

    # bucket violations by (oracle, signature)
    buckets = {}
    for v in violations:
        buckets.setdefault((v["oracle"], v["signature"]), []).append(v)
    vio_lines = []
    for (okey, sig), vs in sorted(buckets.items()):
        v = min(vs, key=lambda v: len(canon(v["case"])))
        path = write_replay(prop, v)
        vio_lines.append((path, v))

    for sig, n in sorted(known_hits.items()):
        print("KNOWN-FINDING: property=%s %s (hit %d times; key=%s)" % (prop, known[sig]["what"], n, sig))
    for path, v in vio_lines:
        print("--- violation: oracle=%s clause=%s signature=%s\n    %s" % (v["oracle"], v["clause"], v["signature"], v["detail"].replace("\n", "\n    ")[:1500]))
        print("VIOLATION property=%s replay=%s" % (prop, path))
    for h in herr[:5]:
        print("HARNESS ERROR in %s at %s:\n%s" % (h.get("oracle"), h.get("where"), h.get("traceback")))
    for m in infra:
        print("INFRASTRUCTURE: %s" % m)

    wall = time.time() - t0
    if not args.no_evidence:
        ev = {
            "property_id": prop,
            "tier": tier,
            "seed": seed,
            "level": "exploration",
            "coverage": {
                "evaluations": int(evaluations),
                "distinct_nontrivial": int(len(nt)),
                "rule": getattr(mod, "RULE", ""),
                "samples": samples[:10] if samples else [{"note": "no non-trivial sample recorded"}],
                "classes": dict(sorted(classes.items())),
                "per_subcheck": per_sub,
                "per_oracle_evaluations": dict(sorted(stage_counts.items())),
                "outside_asserted_domain": dict(sorted(skips.items())),
                "skipped_for_time_budget": int(skipped_budget),
                "known_finding_hits": known_hits,
                "exhaustive_parts": exhaustive,
                "exhaustive": bool(exhaustive) and all(exhaustive.values()) and getattr(mod, "ALL_EXHAUSTIVE", False),
                "notes": notes,
                "harness_errors": len(herr) + len(infra),
            },
            "assumptions": list(getattr(mod, "ASSUMPTIONS", [])),
            "wall_s": round(wall, 2),
            "violations": len(vio_lines),
        }
        os.makedirs(os.path.join(VERIF, "evidence"), exist_ok=True)
        tmp = os.path.join(VERIF, "evidence", prop + ".json.tmp")
        with open(tmp, "w") as f:
            json.dump(ev, f, indent=1, sort_keys=False)
        os.replace(tmp, os.path.join(VERIF, "evidence", prop + ".json"))
    print(
        "%s tier=%s seed=%d evaluations=%d distinct_nontrivial=%d violations=%d known_hits=%d harness_errors=%d skipped_budget=%d wall=%.1fs"
        % (prop, tier, seed, evaluations, len(nt), len(vio_lines), sum(known_hits.values()), len(herr) + len(infra), skipped_budget, wall)
    )
    if vio_lines:
        return 1
    if herr or infra:
        return 2
    return 0


if __name__ == "__main__":
    sys.exit(main())
