"""Shared builder for likelihood cases (C06, C07, C08, C09): a generated
structure + samples + weights + likelihood-model options -> FCN object, plus the
numpy reference NLL computed from plain eager densities."""

import math

import numpy as np
from hypothesis import strategies as st

from . import cards, env, gen

MODELS = ["default", "extended", "cfit", "cfit_cached", "cfit_extended", "cached_int", "cached_amp", "simple", "simple_clip", "constr_frac"]


def data_options(model, case):
    d = {}
    ns = case.get("n_sets", 1)
    case = dict(case)
    if ns > 1:
        # one background fraction per simultaneous data set (a scalar would
        # configure a single likelihood model)
        case["bg_frac"] = [case["bg_frac"]] * ns
    if model == "extended":
        d["extended"] = True
    elif model == "cfit":
        d.update(model="cfit", bg_frac=case["bg_frac"])
    elif model == "cfit_cached":
        d.update(model="cfit", bg_frac=case["bg_frac"], cached_amp=True)
    elif model == "cfit_extended":
        d.update(model="cfit", bg_frac=case["bg_frac"], extended=True)
    elif model == "cached_int":
        d["cached_int"] = True
    elif model == "cached_amp":
        d["cached_amp"] = True
    elif model in ("simple", "simple_clip"):
        d["model"] = model
    elif model == "constr_frac":
        d["model"] = "constr_frac"
        d["constr_frac"] = {"c0": {"res": [case["_res0"]], "value": case["frac_value"], "sigma": case["frac_sigma"]}}
    return d


class NllCase:
    def __init__(self, case, float_shape=False, bounds=False):
        tf = env.tfpwa()
        self.case = case
        spec = case["spec"]
        model = case["model"]
        self.model = model
        spec = dict(spec)
        sfx = env.uniq()
        if model == "constr_frac":
            ch0 = spec["chains"][0]
            k0 = sorted(ch0["res"], key=len)[0]
            case = dict(case, _res0=gen.res_name(k0, ch0["res"][k0].get("id", 0), sfx), frac_value=case.get("frac_value", 0.3), frac_sigma=case.get("frac_sigma", 0.1))
            self.case = case
        spec["data"] = data_options(model, case)
        spec["data"].update(case.get("data_extra", {}))
        if float_shape and spec["chains"]:
            # float mass and width of the first resonance (not for cached integrals)
            ch0 = spec["chains"][0]
            k0 = sorted(ch0["res"])[0]
            ch0["res"][k0] = dict(ch0["res"][k0], float="mg")
        cfg, nm = gen.build(spec, sfx=sfx)
        self.nm = nm
        self.config = cards.load(cfg)
        self.amp = amp = self.config.get_amplitude()
        cards.assign_params(amp, case["pv"])
        self.spec = spec
        self.make_sets(case["seed"])
        # keep every density well above the clip_log threshold (1e-6)
        fmin = min(float(np.min(np.asarray(amp(s["data"])))) for s in self.sets)
        if fmin < 1e-3:
            self.rescale_totals(math.sqrt(1e-2 / max(fmin, 1e-30)))
        self._post_init(case, bounds)

    def make_sets(self, seed):
        case, spec, model, amp = self.case, self.spec, self.model, self.amp
        case = dict(case, seed=seed)
        rng = np.random.RandomState(case["seed"] % 2**31)
        self.sets = []
        nsets = case.get("n_sets", 1)
        cfit = model.startswith("cfit")
        for s in range(nsets):
            nd, nb, nph = case["n_data"], (0 if cfit else case["n_bg"]), case["n_phsp"]
            pd = gen.events(spec, case["seed"] + 11 * s + 1, nd)
            pp = gen.events(spec, case["seed"] + 11 * s + 2, nph)
            data = self.config.data.cal_angle(p4=[np.asarray(x) for x in pd])
            phsp = self.config.data.cal_angle(p4=[np.asarray(x) for x in pp])
            wmode = case["wmode"]
            if wmode == "pos":
                wd = rng.uniform(0.3, 2.0, size=nd)
            elif wmode == "signed":
                wd = rng.uniform(0.3, 2.0, size=nd) * np.where(rng.uniform(size=nd) < 0.25, -1.0, 1.0)
                if abs(wd.sum()) < 0.2 * np.abs(wd).sum():
                    wd = np.abs(wd)
            else:
                wd = np.ones(nd)
            if wmode != "unit":
                data["weight"] = wd
            wp = rng.uniform(0.5, 1.5, size=nph) if case["phsp_weights"] else np.ones(nph)
            if case["phsp_weights"]:
                phsp["weight"] = wp
            bg = None
            if nb:
                pb = gen.events(spec, case["seed"] + 11 * s + 3, nb)
                bg = self.config.data.cal_angle(p4=[np.asarray(x) for x in pb])
            extra = {}
            if cfit:
                for name, dd, n in (("data", data, nd), ("phsp", phsp, nph)):
                    dd["bg_value"] = rng.uniform(0.5, 1.5, size=n)
                    dd["eff_value"] = rng.uniform(0.6, 1.0, size=n)
            self.sets.append({"data": data, "phsp": phsp, "bg": bg, "wd": wd, "wp": wp, "nb": nb})
    def _post_init(self, case, bounds):
        amp = self.amp
        # Gaussian constraints on free parameters
        self.gauss = {}
        tv = sorted(amp.vm.trainable_vars)
        if case.get("gauss_fixed"):
            # a constraint on a FIXED parameter, listed before the others (e.g.
            # gauss_constr on a mass that is kept fixed)
            fixed = sorted(n for n in amp.get_params() if n not in amp.vm.trainable_vars)
            if fixed:
                n = fixed[case["seed"] % len(fixed)]
                self.gauss[n] = (float(amp.get_params()[n]) + 0.3, 0.2)
        for idx, off, sigma in case.get("gauss", []):
            if tv:
                n = tv[idx % len(tv)]
                self.gauss[n] = (float(amp.get_params()[n]) + off, sigma)
        self.config.gauss_constr_dic = dict(self.gauss)
        if bounds and tv:
            for k, (idx, kind, lo, width) in enumerate(case.get("bounds", [])):
                n = tv[idx % len(tv)]
                v = float(amp.get_params()[n])
                rngb = {"two": (v - lo, v + width), "lower": (v - lo, None), "upper": (None, v + width)}[kind]
                amp.vm.set_bound({n: rngb})
        self.fcn = self.make_fcn(case["batch"])

    def rescale_totals(self, lam):
        amp = self.amp
        pr = amp.get_params()
        setp = {}
        for ch in amp.decay_group.chains:
            n = ch.total.name + "_0r"
            setp[n] = float(pr[n]) * lam
        amp.set_params(setp)

    def make_fcn(self, batch):
        sets = self.sets
        all_data = ([s["data"] for s in sets], [s["phsp"] for s in sets], [s["bg"] for s in sets] if any(s["bg"] is not None for s in sets) else None, None)
        self.config.config["data"]["bg_weight"] = self.case["bg_weight"]
        return self.config.get_fcn(all_data=all_data, batch=batch)

    # ------------------------------------------------------- numpy reference
    def reference(self):
        amp = self.amp
        case = self.case
        model = self.model
        tot = 0.0
        info = {}
        for s in self.sets:
            fd = np.asarray(amp.pdf(s["data"]))
            fp = np.asarray(amp.pdf(s["phsp"]))
            wd, wp = s["wd"], s["wp"]
            if model.startswith("cfit"):
                fb = case["bg_frac"]
                w = wd
                alpha = w.sum() / (w**2).sum()
                effd, bgd = np.asarray(s["data"]["eff_value"]), np.asarray(s["data"]["bg_value"])
                effp, bgp = np.asarray(s["phsp"]["eff_value"]), np.asarray(s["phsp"]["bg_value"])
                v = wp / wp.sum()
                I_sig = np.sum(v * effp * fp)
                I_bg = np.sum(v * bgp)
                P = (1 - fb) * effd * fd / I_sig + fb * bgd / I_bg
                nll = -alpha * np.sum(w * np.log(P))
                if model == "cfit_extended":
                    n_exp = I_sig / (1 - fb)
                    nll += -alpha * w.sum() * np.log(n_exp) + n_exp
                info["min_density"] = float(np.min(P))
            else:
                w = wd
                f = fd
                if s["bg"] is not None:
                    fbk = np.asarray(amp.pdf(s["bg"]))
                    w = np.concatenate([wd, -case["bg_weight"] * np.ones(s["nb"])])
                    f = np.concatenate([fd, fbk])
                alpha = w.sum() / (w**2).sum()
                I = np.sum(wp * fp) / wp.sum()
                if model == "extended":
                    nll = -alpha * (np.sum(w * np.log(f)) - w.sum() * I)
                else:
                    nll = -alpha * (np.sum(w * np.log(f)) - w.sum() * np.log(I))
                info["min_density"] = float(np.min(f))
                info["alpha"] = float(alpha)
                if model == "constr_frac":
                    # fraction of the constrained resonance from the per-chain amplitude tensors
                    dg = amp.decay_group
                    old_idx = list(dg.chains_idx)
                    want = self.case["_res0"]
                    sel = [k for k, ch in enumerate(dg.chains) if any(str(r) == want for r in ch.inner)]
                    dg.set_used_chains(sel)
                    t = np.asarray(dg.get_amp3(s["phsp"]))
                    dg.set_used_chains(old_idx)
                    f_res = np.sum(np.abs(t) ** 2, axis=tuple(range(1, t.ndim)))
                    frac = np.sum(wp * f_res) / np.sum(wp * fp)
                    nll += 0.5 * ((frac - self.case["frac_value"]) / self.case["frac_sigma"]) ** 2
            tot += nll
        pr = amp.get_params()
        for n, (mu, sig) in self.gauss.items():
            tot += (float(pr[n]) - mu) ** 2 / (2 * sig * sig)
        return float(tot), info


def case_strategy(models=None, nmax=(80, 30, 200), float_ok=True, spec=None):
    models = models or MODELS
    return st.fixed_dictionaries(
        {
            "spec": spec if spec is not None else gen.structure(nfinal=3, max_chains=3, min_chains=2),
            "pv": st.lists(st.floats(0.05, 0.95), min_size=8, max_size=8),
            "model": st.sampled_from(models),
            "n_data": st.integers(min(20, nmax[0] - 4), nmax[0]),
            "n_bg": st.sampled_from([0, 0, 7, min(25, nmax[1]), nmax[1]]),
            "n_phsp": st.integers(min(50, nmax[2] - 10), nmax[2]),
            "wmode": st.sampled_from(["unit", "pos", "signed"]),
            "phsp_weights": st.booleans(),
            "bg_weight": st.floats(0.1, 0.9),
            "bg_frac": st.floats(0.05, 0.5),
            "gauss": st.lists(st.tuples(st.integers(0, 20), st.floats(-0.3, 0.3), st.floats(0.05, 1.0)), max_size=2),
            "bounds": st.lists(st.tuples(st.integers(0, 20), st.sampled_from(["two", "lower", "upper"]), st.floats(0.3, 2.0), st.floats(0.3, 2.0)), max_size=2),
            "batch": st.sampled_from([7, 13, 65000]),
            "n_sets": st.sampled_from([1, 1, 2]),
            "seed": st.integers(0, 2**31 - 1),
            "gauss_fixed": st.booleans(),
            "frac_value": st.floats(0.1, 0.8),
            "frac_sigma": st.floats(0.05, 0.5),
        }
    )
