#!/usr/bin/env python3
"""Regenerate MANIFEST.json from tools/manifest_src.py (single source)."""
import json, os, sys
sys.path.insert(0, os.path.dirname(os.path.abspath(__file__)))
import manifest_src as S
V = os.path.dirname(os.path.dirname(os.path.abspath(__file__)))
props = [json.loads(l) for l in open(os.path.join(V, "properties.jsonl"))]
checks = []
na = []
for p in props:
    pid = p["id"]
    if pid in S.CHECKS:
        c = S.CHECKS[pid]
        checks.append({
            "property_id": pid,
            "quick_cmd": "./check %s --tier quick" % pid,
            "thorough_cmd": "./check %s --tier thorough" % pid,
            "evidence_file": "evidence/%s.json" % pid,
            "replay_cmd_template": "./check %s --replay {path}" % pid,
            "engine": c.get("engine", "hypothesis"),
            "level_claimed": {"category": "exploration", "text": c["text"], "design_ref": "DESIGN.md section 2, %s" % pid},
            "level_note": c["note"],
            "technique": c["technique"],
        })
    else:
        na.append({"property_id": pid, "reason": S.NA.get(pid, "check not built yet in this round (planned, see DESIGN.md section 2)")})
m = {
    "version": 1,
    "setup_cmd": S.SETUP,
    "hooks": S.HOOKS,
    "engines": S.ENGINES,
    "checks": checks,
    "notes": S.NOTES,
    "not_applicable": na,
}
json.dump(m, open(os.path.join(V, "MANIFEST.json"), "w"), indent=1)
print("checks:", len(checks), "not_applicable:", len(na))
