#!/bin/bash
# usage: tools/sweep.sh <tier> <seed> [ids...]  - runs the checks one after another, one summary line each
tier=${1:-quick}; seed=${2:-1}; shift 2
ids=${@:-C01 C02 C03 C04 C05 C06 C07 C08 C09 C10 C11 C12 C13 C14 C15 C16 C17 C18 C19 C20}
cd "$(dirname "$0")/.."
for id in $ids; do
  out=$(./check $id --tier $tier --seed $seed --no-evidence 2>&1); rc=$?
  echo "$id tier=$tier seed=$seed rc=$rc $(echo "$out" | tail -1)"
  echo "$out" | grep -E "^(VIOLATION|KNOWN-FINDING|INFRASTRUCTURE|--- violation)" | head -5
done
