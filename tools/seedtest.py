#!/usr/bin/env python3
"""Run checks against seeded changes (patches) in a scratch worktree.
 usage: seedtest.py <seed-dir-name|all> [--props C12,C01] [--tier quick] [--src DIR]
 Default patch source: /verif/seeded/<name>/patch.diff; props default: meta.breaks_property"""
import json, os, subprocess, sys, time
VERIF = os.path.dirname(os.path.dirname(os.path.abspath(__file__)))
WT = os.environ.get("SEED_WT", "/tmp/verif_seed_wt")
def sh(cmd, **kw):
    return subprocess.run(cmd, shell=True, text=True, capture_output=True, **kw)
args = sys.argv[1:]
name = args[0]
props = None; tier = "quick"; only = None
if "--props" in args: props = args[args.index("--props") + 1].split(",")
if "--tier" in args: tier = args[args.index("--tier") + 1]
if "--only" in args: only = args[args.index("--only") + 1]
seeds = sorted(os.listdir(os.path.join(VERIF, "seeded"))) if name == "all" else [name]
if not os.path.isdir(WT):
    r = sh("git -C /repo worktree add -q --detach %s HEAD" % WT); assert r.returncode == 0, r.stderr
head = sh("git -C /repo rev-parse HEAD").stdout.strip()
sh("git -C %s checkout -q --detach %s; git -C %s checkout -- ." % (WT, head, WT))
for s in seeds:
    sd = os.path.join(VERIF, "seeded", s)
    if not os.path.exists(os.path.join(sd, "patch.diff")): continue
    meta = json.load(open(os.path.join(sd, "meta.json"))) if os.path.exists(os.path.join(sd, "meta.json")) else {}
    ps = props or [meta.get("breaks_property", s.split("_")[0])]
    sh("git -C %s checkout -- ." % WT)
    r = sh("git -C %s apply %s/patch.diff" % (WT, sd))
    if r.returncode:
        r = sh("git -C %s apply -3 %s/patch.diff" % (WT, sd))
    if r.returncode:
        print("%-10s patch does not apply: %s" % (s, r.stderr[:200])); continue
    for p in ps:
        t0 = time.time()
        extra = (" --only " + only) if only else ""
        r = sh("cd %s && ./check %s --tier %s --no-evidence%s" % (VERIF, p, tier, extra), env=dict(os.environ, VERIF_REPO=WT))
        vio = [l for l in r.stdout.splitlines() if l.startswith("--- violation")]
        st = {0: "MISSED", 1: "caught", 2: "harness-error"}.get(r.returncode, "rc%d" % r.returncode)
        print("%-10s %-4s %-13s %4.0fs %s" % (s, p, st, time.time() - t0, vio[0][:160] if vio else (r.stdout.strip().splitlines() or [""])[-1][:160]))
        sys.stdout.flush()
sh("git -C %s checkout -- ." % WT)
if "--keep" not in args:
    sh("git -C /repo worktree remove --force %s" % WT)
