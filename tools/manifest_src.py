SETUP = "/venv/bin/python -c 'import hypothesis' 2>/dev/null || /venv/bin/pip install --no-index --find-links /opt/veriftools/wheels hypothesis"
HOOKS = {
    "guard": "TF_PWA_VERIF",
    "enable": "no source hooks exist: the checks import /repo's working tree directly (pure Python, nothing to build); ./check exports TF_PWA_VERIF=1 for uniformity",
    "baseline_off_cmd": "cd /repo && /venv/bin/python -m pytest -ra -q -p no:cacheprovider --timeout=900 --continue-on-collection-errors",
    "source_commits": [],
    "add_only": True,
}
ENGINES = [
    {"name": "hypothesis", "path": "vlib/api.py", "serves_properties": ["C01", "C02", "C03", "C04", "C05", "C06", "C07", "C09", "C10", "C11", "C12", "C13", "C14", "C15", "C18", "C20"], "kind_free_text": "Hypothesis 6.168 strategies driven through Ctx.run_cases (seeded from VERIF_SEED via crc32(seed, property, sub, shard), database=None, deadline=None, shrink phase in the thorough tier); failing cases are serialised as JSON replay files and re-executed without Hypothesis"},
    {"name": "hypothesis-stateful", "path": "vlib/api.py", "serves_properties": ["C06", "C08", "C16", "C17", "C19"], "kind_free_text": "operation histories drawn by Hypothesis as JSON op-lists (what a RuleBasedStateMachine would draw) and interpreted by the oracle against a reference model of the state; invariants checked after every step; harness-side fault injection (C17); whole histories are the replay unit"},
    {"name": "enumeration", "path": "vlib/api.py", "serves_properties": ["C04", "C12", "C13", "C14"], "kind_free_text": "itertools enumeration of finite index sets through Ctx.run_enum, sharded over 16 processes, reported as exhaustive_parts in the evidence"},
]
NOTES = "All checks: ./check <ID> --tier quick|thorough; exit 0 held / 1 VIOLATION / 2 harness error. Code under test is /repo's working tree (sys.path[0]); the harness installs numpy.Inf=numpy.inf in its own process (NumPy 2 compatibility, DESIGN 0.1)."
NA = {}
CHECKS = {
 "C19": {
  "engine": "hypothesis-stateful",
  "technique": "model-based property-based testing over a grammar of decay cards: Hypothesis-generated 3-/4-body cards (candidate lists, per-decay option mappings at any position, wrong-fermion-number candidates) are loaded in a history X, Y (same names, other quantum numbers), X, equivalent forms of X in one process; an independent enumeration of the declared decay tree with an independent (l,s) rule is the reference for chains, vertices, quantum numbers and partial waves; repeated loads must be identical; alias / $include-with-override / expanded / split-option / key-permuted forms must load to the same model; as_config() -> load must reproduce chains and quantum numbers",
  "text": "About 1200 card histories (8-10 loads each) per quick run, 4e4 thorough. Exploration level over a combinatorial grammar.",
  "note": "Trusted: the harness's enumeration of declared decays and its selection rule (the same rule as the C13 oracle), PyYAML for include files. After key permutation / candidate expansion chain and parameter-name sets are compared (the reference coupling depends on order by design); random initial couplings are not compared; the export does not carry l_list, so partial waves are not compared after the export round trip.",
 },
 "C05": {
  "technique": "differential property-based testing: every generated decay structure is rebuilt under each evaluation strategy selectable in the data section (cached_amp +stripped data, cached_shape, base_factor, p4_directly, use_tf_function +no_id_cached, jit_compile, lazy_call) and compared with plain eager evaluation on the first call, the second call on the same data object, after a change of the couplings, after restoring them, and with a chain subset; the likelihood value and gradient of cached-integral / cached-amplitude / lazy / traced configurations are compared with the default model; every contraction the amplitude builder emits, plus Hypothesis-generated contraction programs, are compared with numpy.einsum (a raise counts as 'declined')",
  "text": "About 64 structures x 3-4 strategies x 5 comparisons, 12 likelihood cases and 4000 contraction programs per quick run (1200 / 300 / 2.3e5 thorough). Exploration level.",
  "note": "Trusted: numpy.einsum, plain eager default evaluation of the same working tree (the differential reference; its own value is decided by C01/C04/C15). Line-shape parameters stay fixed (the applicability condition of the cached strategies); chain subsets are not asserted for traced (tf.function) strategies. The 'cached_angle' preprocessor never attaches its cache (build_cached is not called), so that option is exercised but equals the default path.",
 },
 "C04": {
  "technique": "property-based testing: Hypothesis-generated spinless cascade cards and Dalitz events against an independent numpy closed-form reference; exhaustive 5x5x5 spin grid",
  "text": "Generated search (hundreds of cards per quick run, thousands thorough) comparing the library density with an independently coded closed formula at 1e-8; evidence proportional to the counted cases, no proof of absence.",
  "note": "Trusted: the harness's numpy reference (Blatt-Weisskopf from reverse Bessel polynomials, Legendre via numpy, own boosts), NumPy/TensorFlow arithmetic. Domain: resonance nominal masses inside the kinematic window.",
 },
 "C12": {
  "engine": "enumeration",
  "technique": "exhaustive enumeration of all (2j<=8,m,m') and all Clebsch-Gordan tuples j<=4 against exact Wigner/Racah formulas; Hypothesis-generated Euler triples and SL(2,C) rotation-boost words for unitarity, group law and Euler round-trip",
  "text": "Finite index sets are enumerated completely in both tiers (exhaustive_parts in evidence); the continuous angle/rapidity domain is sampled (thousands of triples, edge values 0, pi, 2pi drawn deliberately). Exploration level: exhaustive on indices, sampled on angles.",
  "note": "Trusted: harness's exact-factorial Wigner and Racah formulas (cross-checked with mpmath at 40 digits), numpy SU(2) algebra and polar decomposition. Conventions hard-wired from the documented D-matrix definition and the probed SU2M ordering (DESIGN C12).",
 },
 "C14": {
  "engine": "enumeration",
  "technique": "exhaustive enumeration of all (2n-3)!! topologies for n<=6 (quick) / n<=7 (thorough) with an independent canonical form; all-pairs and Hypothesis-sampled pairs for topology_same; Hypothesis-generated decay groups with renamed resonances and identical-particle ids",
  "text": "Enumeration, all-pairs (n<=5) and table round-trips are complete for the stated n; groups and large-n pairs are generated search. Exploration level with exhaustive finite parts.",
  "note": "Trusted: harness canonical form (multiset of leaf sets per internal node) computed from (core, outs) only.",
 },
 "C13": {
  "engine": "enumeration",
  "technique": "exhaustive enumeration of all spin/parity/p_break/C-parity assignments up to spin 4 against an independently coded selection rule; rank and entry check of the coupling->helicity matrix (SVD, exact sympy rank for small spins); Hypothesis-generated l_list/ls_list restrictions and name-reuse histories",
  "text": "The (l,s) list is checked exhaustively for every spin triple up to 4 in both tiers; rank/count/entries exhaustively up to spin 5/2 (quick) and 3 (thorough). Restrictions and multi-decay histories are generated search.",
  "note": "Trusted: harness rule (triangle, parity, C-parity), exact Clebsch-Gordan values, numpy SVD / sympy exact rank. User-supplied ls_list is asserted only for sub-lists of the allowed list.",
 },
 "C15": {
  "technique": "property-based testing: Hypothesis-drawn resonance parameters and mass points per registered line shape, compared (Re and Im) with numpy re-implementations of the documented formulas, standalone and through the full amplitude interfering with a constant chain; barrier factors L=0..8; sympy denominators times numeric value = 1",
  "text": "Generated search over models x parameters x mass points (about 2000 cases quick, 50000 thorough). Exploration level; continuous domain sampled, model list and L enumerated by the strategy.",
  "note": "Trusted: harness re-implementation of each docstring formula; reverse-Bessel reference for barrier factors. Known finding: BWR_LS default fix_bug1=False (recorded, see known_findings.json). Exact zeros of the continued barrier polynomial at q^2<0 are outside the asserted domain.",
 },
 "C11": {
  "technique": "property-based testing: Hypothesis-drawn four-vectors/velocities (round-trip, invariants, matrix-vs-vector boost against a numpy reference); enumerated decay-tree shapes for 3-5 finals with drawn orientation/masses/angles for build->extract round-trips plus independent physical validity of the built momenta; Dalitz round-trip from constructed physical events",
  "text": "Generated search (about 6500 cases quick, 2.5e5 thorough) with edge classes (|v| up to 1-1e-6, epsilon branch, massless finals, decaying second daughter). Exploration level.",
  "note": "Trusted: numpy boosts/masses/helicity cosine in vlib/kin.py. Tolerances scale with gamma^2; phi compared as exp(i phi); exactly collinear Dalitz points (region boundary) not asserted.",
 },
 "C18": {
  "technique": "property-based testing: Hypothesis recursive strategy for nested dict/list/tuple data (incl. empty containers, >1000 batches) with split/merge, batch_call, mask and index oracles in numpy; generated particle-split multi-file inputs (txt/npy/npz, permuted orders) and ConfigLoader dat_order / savetxt / lazy_call / lazy_file round-trips",
  "text": "Generated search (about 2000 cases quick, 1.2e5 thorough). Exploration level; the size class that triggers the former 1000-batch truncation is generated deliberately.",
  "note": "Trusted: numpy indexing/concatenation as reference. Domain: n>=1 and at least one array leaf; tf.data-backed lazy path fed with dict-only inputs as the library does.",
 },
 "C16": {
  "engine": "hypothesis-stateful",
  "technique": "model-based stateful property testing: Hypothesis-generated operation histories (setup in configuration order, then set / bulk load / refresh / coordinate switch / standardise / fix / mask / BFGS step) interpreted against a fresh VarsManager with relational before/after oracles and a tie/fixed-set model; separate generated check of Bound (inverse pair, slope vs sympy derivative and finite differences)",
  "text": "About 1900 histories (<=25 steps) per quick run, 5e4 thorough; every step is followed by the structural invariants. Exploration level over histories.",
  "note": "Trusted: the harness's own bookkeeping of tie classes and fixed sets. Outside asserted domain (counted): switch to Cartesian for variables that only share a radius or have exactly one fixed component. Histories are op-lists (replayable JSON) rather than Hypothesis RuleBasedStateMachine objects.",
 },
 "C10": {
  "technique": "property-based testing: Hypothesis-drawn masses/sizes/seeds/nestings with exact kinematic oracles (count, mass shell, conservation, weight<=1) and statistical oracles (KS tests of every pair-mass spectrum against an independently integrated recursive LIPS density, isotropy, flat Dalitz helicity cosine) at per-run false-alarm probability <1e-8",
  "text": "About 180 generated generators per quick run (n=2..6, nested depth<=3) plus 24 distribution samples of 2e4-5e4 events; thorough 2e3 + 190 samples of 5e4-1e5. Exploration level; distributional clauses are statistical.",
  "note": "Trusted: numpy kinematics, Gauss-Legendre reference density (checked against brute-force integration), scipy KS p-values. After cal_max_weight only the default importance-weighted acceptance weight is asserted <=1. Generators with acceptance <2e-5 (uncalibrated many-body) are counted, not sampled.",
 },
 "C20": {
  "technique": "property-based testing: generated acceptance-rejection runs with a spy on every round (exact count, accepted weight <= bound, KS against the analytic CDF), generated toy cards compared with a density-weighted phase-space reference, Hypothesis-drawn non-uniform grids for the inverse-transform samplers (round-trip identities, scipy reference, chi-square cell occupancy), adaptive-bin partitions and signed-weight histograms against numpy bookkeeping",
  "text": "About 2100 generated cases per quick run (5e4 thorough). Exploration level; distributional clauses are statistical at p<1e-9 per case.",
  "note": "Trusted: scipy.stats p-values, scipy RegularGridInterpolator, numpy bincount. LinearInterp asserted for node values that are zero or of order one and u in [1e-6, 1); adaptive bins with >= 8 events per bin.",
 },
 "C01": {
  "technique": "metamorphic property-based testing: Hypothesis-generated 3- and 4-body decay structures with spin (grammar with consistent fermion number and allowed partial waves at every vertex), events from an independent numpy generator, common rotation+boost / spatial inversion / identical-particle exchange applied by the harness, density compared before and after",
  "text": "About 590 structures x 2-4 relations per quick run, 1.4e4 thorough. Exploration level over a continuous group and a combinatorial structure space; edge classes (moving parent, |beta| up to 0.95, half-integer spins, multi-topology interference) are generated deliberately.",
  "note": "Trusted: numpy Lorentz transformations (vlib/kin.py), the structure grammar (vlib/gen.py). Known finding: identical-particle symmetrisation with spinning final states is frame dependent (recorded, pinned case). Parity clause asserted for all 3-body and parity-conserving 4-body structures.",
 },
 "C02": {
  "technique": "differential / metamorphic property-based testing: the same generated structure (>=2 chains, spinning finals) is rebuilt under permuted chain order, reversed key order and the data options align_ref / random_z / center_mass / only_left_angle, parameters copied by name, densities compared on the same events (parent at rest and moving)",
  "text": "About 350 structures x 3-6 variants per quick run (6400 thorough). Exploration level; the option product and chain permutations are sampled by the strategy.",
  "note": "Trusted: the structure grammar; parameters are transferred by name. Known finding (pinned, excluded from search and counted): align_ref=center_mass with center_mass=False and a moving parent.",
 },
 "C03": {
  "technique": "property-based testing with an algebraic reference: per-chain amplitude tensors are extracted once, then every generated subset / resonance selection / coupling rescaling is compared with the corresponding numpy partial sum; fit fractions from both library paths are compared with a numpy evaluation from the same tensors, with the sum rule and batch-size independence",
  "text": "About 320 generated structures per quick run (8700 thorough) incl. zero couplings, opposite-phase pairs, prefix-related resonance names, weighted samples and non-dividing batches. Exploration level.",
  "note": "Trusted: numpy sums of the library's own single-chain tensors (linearity is the property; the single-chain values themselves are C01/C04/C15). Fit-fraction clause asserted for resonance lists that partition the chains; method='new' is called with an explicit resonance list as the configuration loader does.",
 },
 "C17": {
  "engine": "hypothesis-stateful",
  "technique": "stateful property-based testing with fault injection: Hypothesis-generated histories of nested override blocks and read-only computations on a generated model, an exception injected in the block body or at the k-th density evaluation (by wrapping the model's sum_amp from the harness), state snapshot and bit-identical density compared before/after every step",
  "text": "About 200 histories per quick run (5000 thorough), each 1-8 steps with nesting depth up to 3; prior state (restricted selection, non-default and bounded parameters) is varied. Exploration level over histories x fault points.",
  "note": "Trusted: the harness snapshot (chains_idx, all parameter values, mask table, mask_factor flags, a private config key) and numpy array equality. No repository hook: faults are injected by wrapping a bound method of the instance.",
 },
 "C06": {
  "technique": "property-based testing against a reference model: generated structures, samples, signed weights, backgrounds, likelihood-model options, constraints and batch sizes; the reported NLL (fcn(), nll_grad()[0], fresh FCNs at other batch sizes) is compared with a numpy implementation of the defining formula on plain eager densities; metamorphic rescaling invariance",
  "text": "64 generated likelihood cases per quick run (4 model families x 16 shards; 1500 per family thorough), each checked at 2-3 batch sizes. Exploration level.",
  "note": "Trusted: numpy formula for each model (default/extended/cfit*/cached*/simple*), densities from one plain eager evaluation. Densities are kept above 1e-3 (clip_log branch excluded). The cached models are given two unequal batches (their per-batch tracing costs seconds).",
 },
 "C07": {
  "technique": "property-based testing with a finite-difference oracle: for generated likelihood cases (all claimed models, floating masses/widths, bounded parameters, Gaussian constraints) the returned gradient, Hessian and Hessian-vector product are compared with Richardson-extrapolated directional finite differences of the reported NLL / returned gradient (coordinate directions of the special parameters plus random directions), in physical and in bound-transformed fit space",
  "text": "36 cases per quick run (every claimed model in every run, 2-4 cases each; 400 per model thorough), each with 2-3 directions for first and second derivatives. Exploration level; the oracle carries its own error estimate.",
  "note": "Trusted: finite differences of fcn({}) with error estimate |g(h/2)-g(h)|; small structures (2 chains) keep the eager cost bounded. Known findings (pinned by construction, one per cfit model): grad_hessp of the cfit family returns default-likelihood derivatives.",
 },
 "C08": {
  "engine": "hypothesis-stateful",
  "technique": "stateful property-based testing: Hypothesis-generated fit histories (constraint set, then fit(method,maxiter) / perturb / save-load steps) on generated toy models; after every returned fit the invariants are checked against the live model and an independently rebuilt FCN; every minimiser name the library accepts is exercised in every run",
  "text": "28 histories per quick run (one per minimiser name plus 16 mixed histories), 1300 thorough. Exploration level; convergence quality is not asserted.",
  "note": "Trusted: the harness's bookkeeping of configured constraints (fix_var, var_equal, var_range, gauss_constr), NLL from a freshly built FCN on the same samples. Hessian-based minimisers get 30/60-event samples (no maxiter option exists for them).",
 },
 "C09": {
  "technique": "property-based testing against first-order propagation: Hypothesis expression trees over value+-error numbers (numeric derivatives as oracle), random covariance matrices and expressions for ParamsTrans (J V J^T with finite-difference J), fit-fraction errors and parameter errors of generated likelihood cases against finite-difference gradients / Hessians, bound-transformed covariance against D V D",
  "text": "About 3500 cases per quick run (3300 arithmetic expressions, 160 covariance cases, 16 fit-fraction and 12 parameter-error cases); 7e4 thorough. Exploration level.",
  "note": "Trusted: central finite differences (Richardson where used), numpy linear algebra. Non-positive-definite Hessians and expression points near singularities are outside the asserted domain and counted.",
 },
}
