#!/usr/bin/env python3
"""Confirm a sub-agent's seeded change independently, in a scratch worktree:
 demo passes on the clean tree, fails with the patch, and the pinned 98-test
 baseline still passes with the patch.  Then copy it to /verif/seeded/<ID>_<k>/.
 usage: confirm_seed.py <ID> <k> [--src /tmp/seed_out]"""
import json, os, subprocess, sys, shutil, time, re, xml.etree.ElementTree as ET

VERIF = os.path.dirname(os.path.dirname(os.path.abspath(__file__)))
pid, k = sys.argv[1], sys.argv[2]
src = "/tmp/seed_out"
if "--src" in sys.argv:
    src = sys.argv[sys.argv.index("--src") + 1]
d = os.path.join(src, pid, k)
wt = "/tmp/confirm_%s_%s" % (pid, k)
def sh(cmd, **kw):
    return subprocess.run(cmd, shell=True, text=True, capture_output=True, **kw)
sh("git -C /repo worktree remove --force %s" % wt)
r = sh("git -C /repo worktree add -q --detach %s HEAD" % wt)
assert r.returncode == 0, r.stderr
meta = {"property": pid, "seed_index": int(k), "repo_head": sh("git -C /repo rev-parse HEAD").stdout.strip()}
try:
    env = dict(os.environ, PYTHONDONTWRITEBYTECODE="1", CUDA_VISIBLE_DEVICES="", PYTHONPATH=wt)
    r0 = sh("cd %s && timeout 900 /venv/bin/python %s/demo.py" % (wt, d), env=env)
    meta["demo_clean_rc"] = r0.returncode
    ra = sh("git -C %s apply %s/patch.diff" % (wt, d))
    meta["apply_rc"] = ra.returncode
    if ra.returncode:
        meta["apply_err"] = ra.stderr[-500:]
    r1 = sh("cd %s && timeout 900 /venv/bin/python %s/demo.py" % (wt, d), env=env)
    meta["demo_patched_rc"] = r1.returncode
    meta["demo_patched_tail"] = (r1.stdout + r1.stderr)[-600:]
    junit = "/tmp/confirm_%s_%s.xml" % (pid, k)
    t0 = time.time()
    rt = sh("cd %s && /venv/bin/python -m pytest -q -p no:cacheprovider --timeout=900 --continue-on-collection-errors -n 5 --junitxml=%s" % (wt, junit), env=dict(os.environ, CUDA_VISIBLE_DEVICES=""))
    meta["suite_wall_s"] = round(time.time() - t0)
    passed = set()
    try:
        for tc in ET.parse(junit).getroot().iter("testcase"):
            if not list(tc):
                passed.add("%s::%s" % (tc.get("classname"), tc.get("name")))
            elif all(ch.tag in ("system-out", "system-err", "properties") for ch in tc):
                passed.add("%s::%s" % (tc.get("classname"), tc.get("name")))
    except Exception as e:
        meta["junit_error"] = repr(e)
    base = set(json.load(open("/root/.vp/BASELINE.json"))["stable_pass"])
    meta["suite_passed"] = len(passed)
    meta["baseline_missing"] = sorted(base - passed)
    meta["suite_tail"] = rt.stdout.strip().splitlines()[-1] if rt.stdout.strip() else ""
    ok = meta["demo_clean_rc"] == 0 and meta["apply_rc"] == 0 and meta["demo_patched_rc"] != 0 and not meta["baseline_missing"]
    meta["confirmed"] = ok
    out = os.path.join(VERIF, "seeded", "%s_%s" % (pid, k))
    if ok:
        os.makedirs(out, exist_ok=True)
        for f in ("patch.diff", "demo.py", "notes.md"):
            if os.path.exists(os.path.join(d, f)):
                shutil.copy(os.path.join(d, f), os.path.join(out, f))
        mp = os.path.join(out, "meta.json")
        old = json.load(open(mp)) if os.path.exists(mp) else {}
        old.update({"breaks_property": pid, "confirmation": meta,
                    "what_was_run": "tools/confirm_seed.py: demo on clean worktree (rc 0), git apply patch, demo again (rc != 0), full pytest suite with patch compared against BASELINE.stable_pass (98 ids)"})
        json.dump(old, open(mp, "w"), indent=1)
    print(json.dumps(meta, indent=1))
finally:
    sh("git -C /repo worktree remove --force %s" % wt)
    sh("rm -f /tmp/confirm_%s_%s.xml" % (pid, k))
