#!/usr/bin/env python3
"""Sensitivity self-test: apply each hand-written mutation from
tools/mutations.json to a scratch worktree of /repo (never /repo itself), run
the named check against it (VERIF_REPO=<worktree>) and report whether the check
exits 1.  Usage: tools/muttest.py [--only ID[,ID..]] [--prop C04] [--jobs 1]
"""
import argparse, json, os, subprocess, sys, time, shutil

VERIF = os.path.dirname(os.path.dirname(os.path.abspath(__file__)))
WT = os.environ.get("MUT_WT", "/tmp/verif_mut_wt")


def sh(cmd, **kw):
    return subprocess.run(cmd, shell=True, text=True, capture_output=True, **kw)


def ensure_wt():
    if not os.path.isdir(WT):
        r = sh("git -C /repo worktree add -q --detach %s HEAD" % WT)
        if r.returncode:
            print(r.stderr); sys.exit(2)
    sh("git -C %s checkout -q --detach %s && git -C %s checkout -- ." % (WT, sh("git -C /repo rev-parse HEAD").stdout.strip(), WT))


def main():
    ap = argparse.ArgumentParser()
    ap.add_argument("--only", default=None)
    ap.add_argument("--prop", default=None)
    ap.add_argument("--tier", default="quick")
    ap.add_argument("--keep", action="store_true")
    args = ap.parse_args()
    muts = json.load(open(os.path.join(VERIF, "tools", "mutations.json")))
    if args.only:
        want = set(args.only.split(","))
        muts = [m for m in muts if m["id"] in want]
    if args.prop:
        muts = [m for m in muts if args.prop in m["props"]]
    ensure_wt()
    results = []
    for m in muts:
        sh("git -C %s checkout -- ." % WT)
        path = os.path.join(WT, m["file"])
        src = open(path).read()
        if src.count(m["old"]) < 1:
            print("MUTATION %s: pattern not found in %s" % (m["id"], m["file"])); results.append((m["id"], "nopattern")); continue
        src2 = src.replace(m["old"], m["new"], 1 if not m.get("all") else -1)
        open(path, "w").write(src2)
        for prop in m["props"]:
            t0 = time.time()
            env = dict(os.environ, VERIF_REPO=WT)
            extra = (" --only " + m["only"]) if m.get("only") else ""
            r = sh("cd %s && ./check %s --tier %s --no-evidence%s" % (VERIF, prop, args.tier, extra), env=env)
            vio = [l for l in r.stdout.splitlines() if l.startswith("VIOLATION") or l.startswith("--- violation")]
            status = {0: "MISSED", 1: "killed", 2: "harness-error"}.get(r.returncode, "rc%d" % r.returncode)
            print("%-28s %-4s %-14s %5.0fs  %s" % (m["id"], prop, status, time.time() - t0, (vio[0][:150] if vio else r.stdout.strip().splitlines()[-1][:150] if r.stdout.strip() else "")))
            sys.stdout.flush()
            results.append((m["id"], prop, status))
    sh("git -C %s checkout -- ." % WT)
    if not args.keep:
        sh("git -C /repo worktree remove --force %s" % WT)
    missed = [r for r in results if r[-1] != "killed"]
    print("SUMMARY: %d runs, %d killed, %d not killed" % (len(results), len(results) - len(missed), len(missed)))


if __name__ == "__main__":
    main()
