#!/usr/bin/env python3
"""Run the pinned suite on /repo (or DIR) and compare with BASELINE.stable_pass."""
import json, os, subprocess, sys, xml.etree.ElementTree as ET
d = sys.argv[1] if len(sys.argv) > 1 else "/repo"
junit = "/tmp/baseline_%d.xml" % os.getpid()
r = subprocess.run("cd %s && /venv/bin/python -m pytest -q -p no:cacheprovider --timeout=900 --continue-on-collection-errors -n 6 --junitxml=%s" % (d, junit), shell=True, text=True, capture_output=True, env=dict(os.environ, CUDA_VISIBLE_DEVICES=""))
passed = set()
for tc in ET.parse(junit).getroot().iter("testcase"):
    if all(ch.tag in ("system-out", "system-err", "properties") for ch in tc):
        passed.add("%s::%s" % (tc.get("classname"), tc.get("name")))
os.remove(junit)
base = set(json.load(open("/root/.vp/BASELINE.json"))["stable_pass"])
missing = sorted(base - passed)
# statistically flaky tests (unseeded RNG, e.g. test_importance): retry alone
still = []
for t in missing:
    mod, name = t.rsplit("::", 1)
    path = mod.replace(".", "/") + ".py::" + name
    ok = False
    for _ in range(3):
        rr = subprocess.run("cd %s && /venv/bin/python -m pytest -q -p no:cacheprovider --timeout=900 %s" % (d, path), shell=True, text=True, capture_output=True, env=dict(os.environ, CUDA_VISIBLE_DEVICES=""))
        if rr.returncode == 0:
            ok = True
            break
    if ok:
        print("retry passed (flaky): %s" % t)
        passed.add(t)
    else:
        still.append(t)
missing = still
print(r.stdout.strip().splitlines()[-1])
print("baseline stable_pass: %d, passed now: %d, missing: %s" % (len(base), len(base & passed), missing))
sys.exit(1 if missing else 0)
